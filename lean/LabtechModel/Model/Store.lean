/-!
# M6 Store — storage providers, caches and the Lab-level cache operations

Hand-written executable model of
* `labtech/storage.py`: `LocalStorage` / `FsspecStorage` (a map from key to entry: `exists`,
  `file_handle` writes, `delete`, `find_keys`) and `NullStorage` (inert);
* `labtech/cache.py`: `BaseCache.save / is_cached / load_result_with_meta / load_task / delete` for a
  cache class (`PickleCache`, or any second `BaseCache` subclass) and `NullCache` (inert);
* `labtech/lab.py`: `Lab.is_cached`, `Lab.uncache_tasks`, `Lab.cached_tasks`, and `Lab.run_tasks` at
  the level the cache sees it: which tasks of the request's closure are loaded, which are executed,
  what is saved (`TaskCoordinator.use_cache`, `TaskState.process_tasks`' expansion rule,
  `run_or_load_task`).  The scheduling of those executions is the subject of `Model/Run.lean`;
  here one run processes the needed tasks dependencies-first.

and of the *specification*: a plain map `Tid → Option Stored` with the same operations (`…A`).

A cache key is modelled structurally: the cache class prefix, the type's qualname and the sha1 of
the serialised task (`hash`, a parameter: C07 is the property that it distinguishes tasks).
No imports: compiled into the native driver (`HIST` command).
-/
namespace Lt.Store

abbrev Tid := Nat
abbrev Val := Nat

/-- cache classes: the value written into `metadata.json["cache"]` and prefixed to the key -/
inductive CacheKind
  | null            -- `cache=None` → `NullCache`
  | pickle          -- `PickleCache`
  | other           -- a second `BaseCache` subclass
  deriving DecidableEq, Repr

/-- `KEY_PREFIX ++ qualname ++ "__" ++ sha1` -/
structure Key where
  cls : CacheKind
  ty : Nat
  h : Nat
  deriving DecidableEq, Repr

/-- one key directory: `metadata.json` (cache class, key, serialised task, start, duration) + result file -/
structure Entry where
  cls : CacheKind
  key : Key
  task : Tid
  start : Nat
  dur : Nat
  data : Val
  deriving DecidableEq, Repr

/-- what a load returns: value + `ResultMeta` -/
structure Stored where
  val : Val
  start : Nat
  dur : Nat
  deriving DecidableEq, Repr

abbrev Disk := List (Key × Entry)

/-- the task universe of a history and the Lab configuration -/
structure Universe where
  /-- tasks are `0 … n-1`; every dependency of a task has a smaller tid -/
  n : Nat
  ty : Tid → Nat
  cacheOf : Nat → CacheKind
  deps : Tid → List Tid
  /-- `run()` raises -/
  fails : Tid → Bool
  /-- sha1 of the serialised task -/
  hash : Tid → Nat
  /-- value of `run()` in the run with stamp `g` from the dependency values -/
  value : Tid → Nat → List Val → Val
  /-- qualname of the first type is a string prefix of the qualname of the second -/
  namePrefix : Nat → Nat → Bool
  /-- `Lab(storage=None)` → `NullStorage` -/
  nullStorage : Bool

/-! ## storage provider -/
def lookup (k : Key) : Disk → Option Entry
  | [] => none
  | (k', e) :: rest => if k' = k then some e else lookup k rest

/-- remove the key directory -/
def dropKey (k : Key) : Disk → Disk
  | [] => []
  | p :: ps => if p.1 = k then dropKey k ps else p :: dropKey k ps

def sExists (U : Universe) (d : Disk) (k : Key) : Bool :=
  if U.nullStorage then false else (lookup k d).isSome

/-- both files of an entry written (`file_handle(..., 'w')` twice): create or replace -/
def sPut (U : Universe) (d : Disk) (k : Key) (e : Entry) : Disk :=
  if U.nullStorage then d else (k, e) :: dropKey k d

def sDelete (U : Universe) (d : Disk) (k : Key) : Disk :=
  if U.nullStorage then d else dropKey k d

def clsNum : CacheKind → Nat
  | .null => 0 | .pickle => 1 | .other => 2

def Key.le (a b : Key) : Bool :=
  clsNum a.cls < clsNum b.cls ||
  (clsNum a.cls == clsNum b.cls && (a.ty < b.ty || (a.ty == b.ty && a.h ≤ b.h)))

def insertSorted (k : Key) : List Key → List Key
  | [] => [k]
  | x :: xs => if k.le x then k :: x :: xs else x :: insertSorted k xs

def sortKeys : List Key → List Key
  | [] => []
  | k :: ks => insertSorted k (sortKeys ks)

/-- `find_keys()` (LocalStorage sorts; the harness compares as sorted sets) -/
def sFindKeys (U : Universe) (d : Disk) : List Key :=
  if U.nullStorage then [] else sortKeys (d.map (·.1))

/-! ## cache of a task type -/
def kindOf (U : Universe) (t : Tid) : CacheKind := U.cacheOf (U.ty t)
def cacheable (U : Universe) (t : Tid) : Bool := kindOf U t != .null

/-- `BaseCache.cache_key` -/
def keyOf (U : Universe) (t : Tid) : Key := { cls := kindOf U t, ty := U.ty t, h := U.hash t }

/-- `Cache.is_cached` -/
def cIsCached (U : Universe) (d : Disk) (t : Tid) : Bool :=
  match kindOf U t with
  | .null => false
  | _ => sExists U d (keyOf U t)

/-- `Cache.save` -/
def cSave (U : Universe) (d : Disk) (t : Tid) (r : Stored) : Disk :=
  match kindOf U t with
  | .null => d
  | c => sPut U d (keyOf U t)
      { cls := c, key := keyOf U t, task := t, start := r.start, dur := r.dur, data := r.val }

/-- `Cache.load_result_with_meta` (`none` = it raises). With `NullStorage` the files are
    `/dev/null`: every load fails. -/
def cLoad (U : Universe) (d : Disk) (t : Tid) : Option Stored :=
  match kindOf U t with
  | .null => none
  | c =>
    if U.nullStorage then none else
    match lookup (keyOf U t) d with
    | none => none
    | some e => if e.cls = c then some { val := e.data, start := e.start, dur := e.dur } else none

/-- `Cache.delete` -/
def cDelete (U : Universe) (d : Disk) (t : Tid) : Disk :=
  match kindOf U t with
  | .null => d
  | _ => sDelete U d (keyOf U t)

/-- `BaseCache.load_task(storage, task_type, key)` (`none` = `TaskNotFound`) -/
def cLoadTask (U : Universe) (d : Disk) (T : Nat) (k : Key) : Option Tid :=
  match U.cacheOf T with
  | .null => none
  | c =>
    if k.cls ≠ c || !U.namePrefix T k.ty then none else
    match lookup k d with
    | none => none
    | some e => if e.cls ≠ c then none else if U.ty e.task ≠ T then none else some e.task

/-! ## Lab operations -/
def labIsCached (U : Universe) (d : Disk) (t : Tid) : Bool := cIsCached U d t

/-- `uncache_tasks`: `for task in tasks: if self.is_cached(task): cache.delete(storage, task)` -/
def labUncache (U : Universe) : Disk → List Tid → Disk
  | d, [] => d
  | d, t :: ts => labUncache U (if labIsCached U d t then cDelete U d t else d) ts

def firstType (U : Universe) (d : Disk) (k : Key) : List Nat → Option Tid
  | [] => none
  | T :: Ts => match cLoadTask U d T k with
    | some t => some t           -- `tasks.append(task); break`
    | none => firstType U d k Ts

/-- `cached_tasks(task_types)` -/
def labCachedTasks (U : Universe) (d : Disk) (types : List Nat) : List Tid :=
  (sFindKeys U d).filterMap (fun k => firstType U d k types)

/-- the `result_meta` (start, duration) that `load_task` / `cached_tasks` attaches to a listed task:
    `build_result_meta` of the `metadata.json` under the task's key -/
def cachedTaskMeta (U : Universe) (d : Disk) (t : Tid) : Option (Nat × Nat) :=
  (lookup (keyOf U t) d).map (fun e => (e.start, e.dur))

/-! ### run_tasks as the cache sees it -/
def lookupV (t : Tid) : List (Tid × Option Val) → Option (Option Val)
  | [] => none
  | (k, v) :: rest => if k = t then some v else lookupV t rest

/-- the tasks of the request's closure that end up in the plan: a task is needed if it is requested
    or a dependency of a needed task that is not served from the cache (`process_tasks` does not
    expand `use_cache` tasks). Scan from the largest tid down; the result is ascending. -/
def neededFrom (U : Universe) (uc : Tid → Bool) (req : List Tid) : List Tid :=
  (List.range U.n).reverse.foldl
    (fun acc t => if req.contains t || acc.any (fun p => !uc p && (U.deps p).contains t) then t :: acc else acc) []

/-- `run()` of `t` in run `g` given the results in memory: fails if it raises itself (always:
    `U.fails`; or in this run: `fl`, decided by the Lab context, which is not part of the cache key)
    or a dependency result is unavailable -/
def runTask (U : Universe) (g : Nat) (fl : List Tid) (vals : List (Tid × Option Val)) (t : Tid) : Option Val :=
  let ds := (U.deps t).map (fun d => (lookupV d vals).getD none)
  if U.fails t || fl.contains t || ds.any Option.isNone then none else some (U.value t g (ds.map (fun o => o.getD 0)))

/-- the `ResultMeta` recorded by run `g` for task `t` (stands for `datetime.now()` / the duration) -/
def metaStart (g : Nat) (_t : Tid) : Nat := g
def metaDur (g : Nat) (t : Tid) : Nat := 100 * g + t

structure Acc where
  disk : Disk
  vals : List (Tid × Option Val) := []    -- results in memory (loaded or computed), `none` = failed
  execd : List Tid := []                  -- run() was called
  loaded : List (Tid × Stored) := []      -- served from the cache, with the meta that was set

/-- `run_or_load_task` for one planned task -/
def stepC (U : Universe) (bust : Bool) (g : Nat) (fl : List Tid) (a : Acc) (t : Tid) : Acc :=
  if !bust && labIsCached U a.disk t then
    match cLoad U a.disk t with
    | some s => { a with vals := (t, some s.val) :: a.vals, loaded := (t, s) :: a.loaded }
    | none => { a with vals := (t, none) :: a.vals }
  else
    match runTask U g fl a.vals t with
    | some v => { a with disk := cSave U a.disk t { val := v, start := metaStart g t, dur := metaDur g t },
                         vals := (t, some v) :: a.vals, execd := t :: a.execd }
    | none => { a with vals := (t, none) :: a.vals, execd := t :: a.execd }

def labRun (U : Universe) (bust : Bool) (g : Nat) (fl : List Tid) (req : List Tid) (d : Disk) : Acc :=
  let uc := fun t => !bust && labIsCached U d t
  (neededFrom U uc req).foldl (stepC U bust g fl) { disk := d }

/-- the dict returned by `run_tasks` (request order, failed tasks absent) -/
def returned (req : List Tid) (a : Acc) : List (Tid × Val) :=
  req.filterMap (fun t => match lookupV t a.vals with
    | some (some v) => some (t, v)
    | _ => none)

/-! ## the specification: a plain map -/
abbrev AMap := Tid → Option Stored

def aUpdate (m : AMap) (t : Tid) (s : Stored) : AMap := fun x => if x = t then some s else m x
def aRemove (m : AMap) (t : Tid) : AMap := fun x => if x = t then none else m x

/-- does anything persist for this task: its type has a cache and the Lab has a storage -/
def persists (U : Universe) (t : Tid) : Bool := cacheable U t && !U.nullStorage

structure AAcc where
  map : AMap
  vals : List (Tid × Option Val) := []
  execd : List Tid := []
  loaded : List (Tid × Stored) := []

def stepA (U : Universe) (bust : Bool) (g : Nat) (fl : List Tid) (a : AAcc) (t : Tid) : AAcc :=
  match (if bust then none else a.map t) with
  | some s => { a with vals := (t, some s.val) :: a.vals, loaded := (t, s) :: a.loaded }
  | none =>
    match runTask U g fl a.vals t with
    | some v => { a with map := if persists U t
                                then aUpdate a.map t { val := v, start := metaStart g t, dur := metaDur g t }
                                else a.map,
                         vals := (t, some v) :: a.vals, execd := t :: a.execd }
    | none => { a with vals := (t, none) :: a.vals, execd := t :: a.execd }

def specRun (U : Universe) (bust : Bool) (g : Nat) (fl : List Tid) (req : List Tid) (m : AMap) : AAcc :=
  let uc := fun t => !bust && (m t).isSome
  (neededFrom U uc req).foldl (stepA U bust g fl) { map := m }

def specUncache (m : AMap) (ts : List Tid) : AMap := fun x => if ts.contains x then none else m x

/-- what `cached_tasks` must list (as a set) -/
def specCachedTasks (U : Universe) (m : AMap) (types : List Nat) : List Tid :=
  (List.range U.n).filter (fun t => types.contains (U.ty t) && (m t).isSome)

/-- the abstraction: what the concrete disk means as a map -/
def abs (U : Universe) (d : Disk) : AMap := fun t => cLoad U d t

/-! ## histories -/
inductive Op
  | run (bust : Bool) (g : Nat) (req : List Tid) (fl : List Tid)
  | uncache (ts : List Tid)
  | isCached (t : Tid)
  | cachedTasks (types : List Nat)
  deriving Repr

inductive Out
  | ran (ret : List (Tid × Val)) (execd : List Tid) (loaded : List (Tid × Stored))
  | unit
  | bool (b : Bool)
  | tasks (ts : List Tid)
  deriving DecidableEq, Repr

def opC (U : Universe) (d : Disk) : Op → Disk × Out
  | .run bust g req fl => let a := labRun U bust g fl req d; (a.disk, .ran (returned req a) a.execd a.loaded)
  | .uncache ts => (labUncache U d ts, .unit)
  | .isCached t => (d, .bool (labIsCached U d t))
  | .cachedTasks types => (d, .tasks (labCachedTasks U d types))

def returnedA (req : List Tid) (a : AAcc) : List (Tid × Val) :=
  req.filterMap (fun t => match lookupV t a.vals with
    | some (some v) => some (t, v)
    | _ => none)

def opA (U : Universe) (m : AMap) : Op → AMap × Out
  | .run bust g req fl => let a := specRun U bust g fl req m; (a.map, .ran (returnedA req a) a.execd a.loaded)
  | .uncache ts => (specUncache m ts, .unit)
  | .isCached t => (m, .bool (m t).isSome)
  | .cachedTasks types => (m, .tasks (specCachedTasks U m types))

def histC (U : Universe) : Disk → List Op → Disk × List Out
  | d, [] => (d, [])
  | d, op :: ops => let (d', o) := opC U d op; let (d'', os) := histC U d' ops; (d'', o :: os)

def histA (U : Universe) : AMap → List Op → AMap × List Out
  | m, [] => (m, [])
  | m, op :: ops => let (m', o) := opA U m op; let (m'', os) := histA U m' ops; (m'', o :: os)

/-- outputs agree: identical, except that task listings are compared as sets -/
def outSame : Out → Out → Prop
  | .tasks a, .tasks b => ∀ t, t ∈ a ↔ t ∈ b
  | x, y => x = y

/-- output streams agree position by position -/
def outsSame : List Out → List Out → Prop
  | [], [] => True
  | a :: as, b :: bs => outSame a b ∧ outsSame as bs
  | _, _ => False

end Lt.Store
