/-!
# M1 Params / M2 TaskObj — executable model of labtech's parameter handling

Import-free (compiled into the native driver).  Mirrors, function by function:

* `labtech/tasks.py`: `immutable_param_value` (`normalize`), `find_tasks_in_param` (`findTasksRaw`,
  `findTasks`), `get_direct_dependencies` (`directDeps`), `_task_post_init` (`construct`),
  `__getstate__` / `__setstate__` (`getstate` / `setstate`);
* `labtech/serialization.py`: `serialize_*` (`serValue`, `serTask`), `deserialize_*` (`deValue`,
  `deTask`; the deserialiser recurses into lists and dicts and hands what it built to the task
  constructor, which normalises again);
* `labtech/cache.py`: `BaseCache.cache_key` (`cacheKeyPre`, `cacheKey`), `save` (`saveEntry`),
  `load_metadata` + `load_task` (`loadTask`);
* `labtech/lab.py`: `Lab.cached_tasks` (`cachedTasks`).

Model equality is typed structural equality (finer than Python's `==`, which also identifies
`1`/`True`/`1.0`, `0.0`/`-0.0`, and dicts that differ in key order).
-/
namespace Lt.Params

/-- a class as `serialize_class` sees it: `cls.__module__`, `cls.__qualname__` -/
structure ClassRef where
  module : String
  qualname : String
  deriving DecidableEq, Repr

/-- `serialize_class`: `f'{cls.__module__}.{cls.__qualname__}'` -/
def ClassRef.ser (c : ClassRef) : String := c.module ++ "." ++ c.qualname

/-- `ParamScalar` without enums.  A float is the token `json.dumps` prints for it (`float.__repr__`,
or `Infinity` / `-Infinity`); NaN is excluded (a task holding NaN is not equal to itself). -/
inductive Scalar where
  | none
  | bool (b : Bool)
  | int (i : Int)
  | float (tok : String)
  | str (s : String)
  deriving DecidableEq, Repr

mutual
/-- a *normalised* parameter value: what a constructed task holds -/
inductive Value where
  | scalar (s : Scalar)
  | enum (cls : ClassRef) (name : String)
  | tuple (items : List Value)
  | dict (items : List (String × Value))      -- frozendict, insertion ordered
  | task (t : Task)
/-- a constructed task: its class and its dataclass fields in class order -/
inductive Task where
  | mk (cls : ClassRef) (fields : List (String × Value))
end

def Task.cls : Task → ClassRef
  | .mk c _ => c
def Task.fields : Task → List (String × Value)
  | .mk _ f => f

/-! ## typed structural equality -/
mutual
def Value.beq : Value → Value → Bool
  | .scalar a, .scalar b => a == b
  | .enum c n, .enum c' n' => c == c' && n == n'
  | .tuple a, .tuple b => beqList a b
  | .dict a, .dict b => beqFields a b
  | .task a, .task b => Task.beq a b
  | _, _ => false
def Task.beq : Task → Task → Bool
  | .mk c f, .mk c' f' => c == c' && beqFields f f'
def beqList : List Value → List Value → Bool
  | [], [] => true
  | a :: as, b :: bs => Value.beq a b && beqList as bs
  | _, _ => false
def beqFields : List (String × Value) → List (String × Value) → Bool
  | [], [] => true
  | (k, a) :: as, (k', b) :: bs => k == k' && Value.beq a b && beqFields as bs
  | _, _ => false
end

/-! ## raw values: what a caller may pass to a task constructor -/

inductive RawKey where
  | str (s : String)
  | other                     -- any non-`str` dict key
  deriving DecidableEq, Repr

inductive Raw where
  | scalar (s : Scalar)
  | enum (cls : ClassRef) (name : String)
  | list (items : List Raw)
  | tuple (items : List Raw)
  | dict (items : List (RawKey × Raw))
  | fdict (items : List (RawKey × Raw))       -- frozendict
  | task (t : Task)                           -- an already constructed task object
  | unsupported                               -- set, bytes, arbitrary object, ...

/-- exception classes the modelled code raises -/
inductive Err where
  | taskError
  | serializationError
  | keyError          -- missing `__class__` / `name`, unknown enum member
  | lookupError       -- class string without '.', module or attribute not importable
  | typeError         -- constructor called without a required field, class string not a str
  deriving DecidableEq, Repr

def Err.name : Err → String
  | .taskError => "TaskError"
  | .serializationError => "SerializationError"
  | .keyError => "KeyError"
  | .lookupError => "LookupError"
  | .typeError => "TypeError"

mutual
/-- `immutable_param_value` -/
def normalize : Raw → Except Err Value
  | .scalar s => .ok (.scalar s)
  | .enum c n => .ok (.enum c n)
  | .list items =>
    match normList items with
    | .ok vs => .ok (.tuple vs)
    | .error e => .error e
  | .tuple items =>
    match normList items with
    | .ok vs => .ok (.tuple vs)
    | .error e => .error e
  | .dict items =>
    match normItems items with
    | .ok vs => .ok (.dict vs)
    | .error e => .error e
  | .fdict items =>
    match normItems items with
    | .ok vs => .ok (.dict vs)
    | .error e => .error e
  | .task t => .ok (.task t)
  | .unsupported => .error .taskError
def normList : List Raw → Except Err (List Value)
  | [] => .ok []
  | r :: rs =>
    match normalize r with
    | .error e => .error e
    | .ok v =>
      match normList rs with
      | .error e => .error e
      | .ok vs => .ok (v :: vs)
def normItems : List (RawKey × Raw) → Except Err (List (String × Value))
  | [] => .ok []
  | (.other, _) :: _ => .error .taskError          -- `ensure_dict_key_str(..., TaskError)`
  | (.str k, r) :: rest =>
    match normalize r with
    | .error e => .error e
    | .ok v =>
      match normItems rest with
      | .error e => .error e
      | .ok vs => .ok ((k, v) :: vs)
end

/-! ## dependency search -/
mutual
/-- `find_tasks_in_param` on a normalised value (the ancestor-id guard can never fire on acyclic
immutable values) -/
def findTasks : Value → List Task
  | .scalar _ => []
  | .enum _ _ => []
  | .tuple items => findList items
  | .dict items => findFields items
  | .task t => [t]
def findList : List Value → List Task
  | [] => []
  | v :: vs => findTasks v ++ findList vs
def findFields : List (String × Value) → List Task
  | [] => []
  | (_, v) :: rest => findTasks v ++ findFields rest
end

mutual
/-- `find_tasks_in_param` on any raw value: lists/tuples and dict *values* are searched, keys are not
looked at, anything else raises `TaskError` ("This should be impossible") -/
def findTasksRaw : Raw → Except Err (List Task)
  | .scalar _ => .ok []
  | .enum _ _ => .ok []
  | .list items => findRawList items
  | .tuple items => findRawList items
  | .dict items => findRawItems items
  | .fdict items => findRawItems items
  | .task t => .ok [t]
  | .unsupported => .error .taskError
def findRawList : List Raw → Except Err (List Task)
  | [] => .ok []
  | r :: rs =>
    match findTasksRaw r with
    | .error e => .error e
    | .ok a =>
      match findRawList rs with
      | .error e => .error e
      | .ok b => .ok (a ++ b)
def findRawItems : List (RawKey × Raw) → Except Err (List Task)
  | [] => .ok []
  | (_, r) :: rest =>
    match findTasksRaw r with
    | .error e => .error e
    | .ok a =>
      match findRawItems rest with
      | .error e => .error e
      | .ok b => .ok (a ++ b)
end

/-- `OrderedSet.add`: `self.values[item] = item` keeps the position of an existing equal key -/
def addO (acc : List Task) (t : Task) : List Task :=
  if acc.any (fun u => Task.beq u t) then acc else acc ++ [t]

/-- `get_direct_dependencies`: first occurrence per equality class, in discovery order -/
def directDeps (t : Task) : List Task := (findFields t.fields).foldl addO []

/-! ## JSON documents and the serialiser -/

inductive Json where
  | null
  | bool (b : Bool)
  | int (i : Int)
  | float (tok : String)
  | str (s : String)
  | arr (items : List Json)
  | obj (items : List (String × Json))

def serScalar : Scalar → Json
  | .none => .null
  | .bool b => .bool b
  | .int i => .int i
  | .float r => .float r
  | .str s => .str s

mutual
/-- `Serializer.serialize_value` -/
def serValue : Value → Json
  | .scalar s => serScalar s
  | .enum cls name => .obj [("_is_enum", .bool true), ("__class__", .str cls.ser), ("name", .str name)]
  | .tuple items => .arr (serList items)
  | .dict items => .obj (serFields items)
  | .task t => serTask t
/-- `Serializer.serialize_task` -/
def serTask : Task → Json
  | .mk cls fields => .obj (("_is_task", .bool true) :: ("__class__", .str cls.ser) :: serFields fields)
def serList : List Value → List Json
  | [] => []
  | v :: vs => serValue v :: serList vs
def serFields : List (String × Value) → List (String × Json)
  | [] => []
  | (k, v) :: rest => (k, serValue v) :: serFields rest
end

/-! ### `json.dumps` with default arguments -/

def hexDigit (n : Nat) : Char :=
  if n < 10 then Char.ofNat (48 + n) else Char.ofNat (87 + n)

/-- `'\\u{0:04x}'.format(n)` for `n < 65536` -/
def u4 (n : Nat) : List Char :=
  ['\\', 'u', hexDigit (n / 4096 % 16), hexDigit (n / 256 % 16), hexDigit (n / 16 % 16), hexDigit (n % 16)]

/-- `json.encoder.py_encode_basestring_ascii` for one character -/
def escChar (c : Char) : List Char :=
  if c = '"' then ['\\', '"']
  else if c = '\\' then ['\\', '\\']
  else if c = '\n' then ['\\', 'n']
  else if c = '\r' then ['\\', 'r']
  else if c = '\t' then ['\\', 't']
  else if c.toNat = 8 then ['\\', 'b']
  else if c.toNat = 12 then ['\\', 'f']
  else if 32 ≤ c.toNat ∧ c.toNat ≤ 126 then [c]
  else if c.toNat < 65536 then u4 c.toNat
  else
    let n := c.toNat - 65536
    u4 (55296 + (n / 1024) % 1024) ++ u4 (56320 + n % 1024)

def escChars : List Char → List Char
  | [] => []
  | c :: cs => escChar c ++ escChars cs

def dumpsStr (s : String) : String := String.ofList ('"' :: escChars s.toList ++ ['"'])

mutual
/-- `json.dumps(doc)`: separators `", "` and `": "`, `ensure_ascii=True` -/
def dumps : Json → String
  | .null => "null"
  | .bool true => "true"
  | .bool false => "false"
  | .int i => toString i
  | .float tok => tok
  | .str s => dumpsStr s
  | .arr items => "[" ++ dumpsList items ++ "]"
  | .obj items => "{" ++ dumpsItems items ++ "}"
def dumpsList : List Json → String
  | [] => ""
  | [j] => dumps j
  | j :: js => dumps j ++ ", " ++ dumpsList js
def dumpsItems : List (String × Json) → String
  | [] => ""
  | [(k, j)] => dumpsStr k ++ ": " ++ dumps j
  | (k, j) :: rest => dumpsStr k ++ ": " ++ dumps j ++ ", " ++ dumpsItems rest
end

/-- the bytes `BaseCache.cache_key` feeds to sha1 (pure ASCII) -/
def cacheKeyPre (t : Task) : String := dumps (serTask t)

/-- a cache class: `__qualname__`, `KEY_PREFIX`; `isNull` for `NullCache` -/
structure CacheFmt where
  name : String
  kprefix : String
  isNull : Bool
  deriving DecidableEq, Repr

/-- `cache.cache_key(task)`; sha1-hexdigest is a parameter of the model -/
def cacheKey (sha1 : String → String) (fmt : CacheFmt) (t : Task) : String :=
  if fmt.isNull then "null" else fmt.kprefix ++ t.cls.qualname ++ "__" ++ sha1 (cacheKeyPre t)

/-! ## the deserialiser -/

/-- Python truthiness of a decoded JSON value -/
def Json.truthy : Json → Bool
  | .null => false
  | .bool b => b
  | .int i => i != 0
  | .float r => r != "0.0" && r != "-0.0"
  | .str s => s != ""
  | .arr l => !l.isEmpty
  | .obj l => !l.isEmpty

def lookup (k : String) : List (String × Json) → Option Json
  | [] => none
  | (k', v) :: rest => if k = k' then some v else lookup k rest

/-- `bool(serialized.get(k, False))` -/
def flagged (k : String) (items : List (String × Json)) : Bool :=
  match lookup k items with
  | some v => v.truthy
  | none => false

/-- `s.rsplit('.', 1)` when it yields two parts -/
def splitLastDot : List Char → Option (List Char × List Char)
  | [] => none
  | c :: cs =>
    match splitLastDot cs with
    | some (a, b) => some (c :: a, b)
    | none => if c = '.' then some ([], cs) else none

/-- the class a `__class__` string names, before the import -/
def parseClass (s : String) : Option ClassRef :=
  match splitLastDot s.toList with
  | some (m, q) => some ⟨String.ofList m, String.ofList q⟩
  | none => none

/-- what `__import__` + `getattr` can find: the dataclass field names of a task type, the member
names of an enum type -/
structure Reg where
  taskFields : ClassRef → Option (List String)
  enumMembers : ClassRef → Option (List String)

/-- `deserialize_class(serialized['__class__'])` -/
def classOf (items : List (String × Json)) : Except Err ClassRef :=
  match lookup "__class__" items with
  | none => .error .keyError
  | some (.str s) =>
    match parseClass s with
    | some c => .ok c
    | none => .error .lookupError
  | some _ => .error .typeError

def lookupRaw (k : String) : List (String × Raw) → Option Raw
  | [] => none
  | (k', v) :: rest => if k = k' then some v else lookupRaw k rest

/-- `task_cls(**params)` followed by the normalisation loop of `_task_post_init`, in dataclass field
order.  Field defaults are outside the model: a missing field is a `TypeError`. -/
def buildFields (params : List (String × Raw)) : List String → Except Err (List (String × Value))
  | [] => .ok []
  | n :: ns =>
    match lookupRaw n params with
    | none => .error .typeError
    | some r =>
      match normalize r with
      | .error e => .error e
      | .ok v =>
        match buildFields params ns with
        | .error e => .error e
        | .ok vs => .ok ((n, v) :: vs)

def deEnum (reg : Reg) (items : List (String × Json)) : Except Err Raw :=
  match classOf items with
  | .error e => .error e
  | .ok c =>
    match reg.enumMembers c with
    | none => .error .lookupError
    | some members =>
      match lookup "name" items with
      | some (.str n) => if members.contains n then .ok (.enum c n) else .error .keyError
      | _ => .error .keyError

mutual
/-- `Serializer.deserialize_value` -/
def deValue (reg : Reg) : Json → Except Err Raw
  | .null => .ok (.scalar .none)
  | .bool b => .ok (.scalar (.bool b))
  | .int i => .ok (.scalar (.int i))
  | .float r => .ok (.scalar (.float r))
  | .str s => .ok (.scalar (.str s))
  | .arr items =>
    match deList reg items with
    | .ok rs => .ok (.list rs)
    | .error e => .error e
  | .obj items =>
    if flagged "_is_task" items then
      -- `deserialize_task`
      match classOf items with
      | .error e => .error e
      | .ok c =>
        match reg.taskFields c with
        | none => .error .lookupError
        | some names =>
          match deTaskFields reg names items with
          | .error e => .error e
          | .ok params =>
            match buildFields params names with
            | .error e => .error e
            | .ok fs => .ok (.task (.mk c fs))
    else if flagged "_is_enum" items then deEnum reg items
    else
      match deDict reg items with
      | .ok rs => .ok (.dict rs)
      | .error e => .error e
def deList (reg : Reg) : List Json → Except Err (List Raw)
  | [] => .ok []
  | j :: js =>
    match deValue reg j with
    | .error e => .error e
    | .ok r =>
      match deList reg js with
      | .error e => .error e
      | .ok rs => .ok (r :: rs)
def deDict (reg : Reg) : List (String × Json) → Except Err (List (RawKey × Raw))
  | [] => .ok []
  | (k, j) :: rest =>
    match deValue reg j with
    | .error e => .error e
    | .ok r =>
      match deDict reg rest with
      | .error e => .error e
      | .ok rs => .ok ((.str k, r) :: rs)
/-- the `for key, value in serialized.items()` loop of `deserialize_task` -/
def deTaskFields (reg : Reg) (names : List String) : List (String × Json) → Except Err (List (String × Raw))
  | [] => .ok []
  | (k, j) :: rest =>
    if k == "_is_task" || k == "__class__" then deTaskFields reg names rest
    else if !names.contains k then .error .serializationError
    else
      match deValue reg j with
      | .error e => .error e
      | .ok r =>
        match deTaskFields reg names rest with
        | .error e => .error e
        | .ok rs => .ok ((k, r) :: rs)
end

/-- `Serializer.deserialize_task` (without the `result_meta` it attaches) -/
def deTask (reg : Reg) (j : Json) : Except Err Task :=
  match j with
  | .obj items =>
    if flagged "_is_task" items then
      match deValue reg (.obj items) with
      | .ok (.task t) => .ok t
      | .ok _ => .error .serializationError
      | .error e => .error e
    else .error .serializationError
  | _ => .error .serializationError

/-! ## M2: task objects -/

/-- a task object: the value, the key computed at construction, the per-instance runtime attributes
and whatever the type's `post_init` derives (a deterministic function of the task, parameter `D`) -/
structure TaskObj (D : Type) where
  value : Task
  cacheKey : String
  resultsMap : Option String
  context : Option String
  resultMeta : Option String
  derived : D

/-- the environment of a session: importable classes, each type's cache, sha1, the types' `post_init` -/
structure Env (D : Type) where
  reg : Reg
  cacheOf : ClassRef → CacheFmt
  sha1 : String → String
  postInit : Task → D

/-- what `_task_post_init` leaves behind for an (already normalised) value -/
def mkObj {D : Type} (env : Env D) (t : Task) : TaskObj D :=
  { value := t, cacheKey := cacheKey env.sha1 (env.cacheOf t.cls) t,
    resultsMap := none, context := none, resultMeta := none, derived := env.postInit t }

def normFields : List (String × Raw) → Except Err (List (String × Value))
  | [] => .ok []
  | (k, r) :: rest =>
    match normalize r with
    | .error e => .error e
    | .ok v =>
      match normFields rest with
      | .error e => .error e
      | .ok vs => .ok ((k, v) :: vs)

/-- `cls(**fields)`: dataclass `__init__` + `_task_post_init` -/
def construct {D : Type} (env : Env D) (cls : ClassRef) (fields : List (String × Raw)) : Except Err (TaskObj D) :=
  match normFields fields with
  | .error e => .error e
  | .ok fs => .ok (mkObj env (.mk cls fs))

mutual
/-- a normalised value as the raw value it is (tuples and frozendicts) -/
def embed : Value → Raw
  | .scalar s => .scalar s
  | .enum c n => .enum c n
  | .tuple items => .tuple (embedList items)
  | .dict items => .fdict (embedFields items)
  | .task t => .task t
def embedList : List Value → List Raw
  | [] => []
  | v :: vs => embed v :: embedList vs
def embedFields : List (String × Value) → List (RawKey × Raw)
  | [] => []
  | (k, v) :: rest => (.str k, embed v) :: embedFields rest
end

/-- the dict `_task__getstate__` returns (`_lt` and `_is_task` are constants of the class) -/
structure PState where
  cls : ClassRef
  fields : List (String × Value)
  cacheKey : String
  resultsMap : Option String      -- always `None`

def getstate {D : Type} (o : TaskObj D) : PState :=
  { cls := o.value.cls, fields := o.value.fields, cacheKey := o.cacheKey, resultsMap := none }

def renormFields : List (String × Value) → Except Err (List (String × Value))
  | [] => .ok []
  | (k, v) :: rest =>
    match normalize (embed v) with
    | .error e => .error e
    | .ok v' =>
      match renormFields rest with
      | .error e => .error e
      | .ok vs => .ok ((k, v') :: vs)

/-- `_task__setstate__` on a blank instance: fields pass through `immutable_param_value` again, the
other state entries are copied, `context`/`result_meta` are reset, `post_init` runs again.  The cache
key is copied, not recomputed. -/
def setstate {D : Type} (env : Env D) (s : PState) : Except Err (TaskObj D) :=
  match renormFields s.fields with
  | .error e => .error e
  | .ok fs =>
    .ok { value := .mk s.cls fs, cacheKey := s.cacheKey, resultsMap := s.resultsMap,
          context := none, resultMeta := none, derived := env.postInit (.mk s.cls fs) }

/-- `pickle.loads(pickle.dumps(o))`; pickle itself is the identity on parameter values (trusted,
checked by the harness for every protocol) -/
def pickleRoundTrip {D : Type} (env : Env D) (o : TaskObj D) : Except Err (TaskObj D) :=
  setstate env (getstate o)

/-! ## the cache store and `Lab.cached_tasks` -/

/-- the parts of `metadata.json` that `load_task` reads; `rm` stands for the pair
(`start_timestamp`, `duration_seconds`) that `build_result_meta` turns into a `ResultMeta` -/
structure MetaDoc where
  cache : String
  task : Json
  rm : String

structure Entry where
  key : String
  doc : MetaDoc

/-- `BaseCache.save` of a task object under cache format `fmt` -/
def saveEntry (sha1 : String → String) (fmt : CacheFmt) (t : Task) (rm : String) : Entry :=
  { key := cacheKey sha1 fmt t, doc := { cache := fmt.name, task := serTask t, rm := rm } }

def isPrefix (p s : String) : Bool := p.toList.isPrefixOf s.toList

inductive Load (α : Type) where
  | found (a : α)
  | notFound              -- `TaskNotFound`
  | raised (e : Err)      -- any other exception: propagates out of `cached_tasks`

/-- `task_type._lt.cache.load_task(storage, task_type, key)` -/
def loadTask {D : Type} (env : Env D) (ty : ClassRef) (e : Entry) : Load (TaskObj D) :=
  let fmt := env.cacheOf ty
  if fmt.isNull then .notFound
  else if !isPrefix (fmt.kprefix ++ ty.qualname) e.key then .notFound
  else if e.doc.cache != fmt.name then .notFound
  else
    match deTask env.reg e.doc.task with
    | .error err => .raised err
    | .ok t =>
      -- `isinstance(task, task_type)`; types are modelled without inheritance
      if t.cls = ty then .found { mkObj env t with resultMeta := some e.doc.rm } else .notFound

/-- the inner `for task_type in task_types` loop with its `break` -/
def tryTypes {D : Type} (env : Env D) (e : Entry) : List ClassRef → Load (TaskObj D)
  | [] => .notFound
  | ty :: rest =>
    match loadTask env ty e with
    | .found o => .found o
    | .notFound => tryTypes env e rest
    | .raised x => .raised x

/-- `Lab.cached_tasks(task_types)` over the entries `find_keys()` lists -/
def cachedTasks {D : Type} (env : Env D) (types : List ClassRef) : List Entry → Except Err (List (TaskObj D))
  | [] => .ok []
  | e :: es =>
    match tryTypes env e types with
    | .raised x => .error x
    | .notFound => cachedTasks env types es
    | .found o =>
      match cachedTasks env types es with
      | .error x => .error x
      | .ok os => .ok (o :: os)

end Lt.Params
