/-!
# M12 Env: backend selection, context hand-over, start method and worker memory view

Decision-logic model of `Lab.__init__` (`runner_backend` selection), of where each runner obtains
the context it hands to `run()` (`serial.py:wait`, `process.py:SpawnProcessRunner._submit_task`,
`ForkProcessRunner._fork_subprocess_func`, `base.py:run_or_load_task`), of the multiprocessing context
the executor creates processes from (`ProcessExecutor._start_processes` uses `self.mp_context`) and of
what a worker can see of the caller's memory. What CPython's start methods really do is runtime truth
checked on real processes by the harness; this file fixes what labtech *asks for*.
-/
namespace Lt.Env

inductive Backend | serial | fork | spawn
  deriving DecidableEq, Repr

inductive SelErr | unsupportedDefault | unrecognised
  deriving DecidableEq, Repr

/-- `Lab.__init__`: `runner_backend=None` picks fork if the platform supports it, else spawn;
    a string must be one of the three names -/
def selectBackend (arg : Option String) (startMethods : List String) : Except SelErr Backend :=
  match arg with
  | none =>
    if "fork" ∈ startMethods then .ok .fork
    else if "spawn" ∈ startMethods then .ok .spawn
    else .error .unsupportedDefault
  | some s =>
    if s = "fork" then .ok .fork
    else if s = "spawn" then .ok .spawn
    else if s = "serial" then .ok .serial
    else .error .unrecognised

/-- the multiprocessing start method the runner's executor creates its processes with
    (`_get_mp_context` + `self.mp_context.Process`); the serial runner creates none -/
def startMethod : Backend → Option String
  | .serial => none
  | .fork => some "fork"
  | .spawn => some "spawn"

abbrev Ctx := List (String × Nat)

/-- where the task body runs -/
inductive Where | callerProcess | childProcess
  deriving DecidableEq, Repr

def runsIn : Backend → Where
  | .serial => .callerProcess
  | _ => .childProcess

/-- a parent-side module global: its value at import time, when the runner was built, and when the
    worker process was started -/
structure Global where
  atImport : Nat
  atProcessStart : Nat
  atExecution : Nat

/-- what `run()` sees of that global -/
def workerView (b : Backend) (g : Global) : Nat :=
  match b with
  | .serial => g.atExecution       -- the caller itself
  | .fork => g.atProcessStart      -- inherited memory
  | .spawn => g.atImport           -- fresh interpreter: the module is imported again

/-- the context argument each runner passes to `run_or_load_task` for a task with filter `filt`
    (`useCache` = the result will be loaded, not executed) -/
def contextPassed (b : Backend) (filt : Ctx → Ctx) (labCtx : Ctx) (useCache : Bool) : Ctx :=
  match b with
  | .serial => filt labCtx
  | .fork => filt labCtx
  | .spawn => if useCache then [] else filt labCtx

/-- `run_or_load_task`: the context is set on the task only on the execute branch -/
def contextInRun (b : Backend) (filt : Ctx → Ctx) (labCtx : Ctx) (useCache : Bool) : Option Ctx :=
  if useCache then none else some (contextPassed b filt labCtx useCache)

/-- cache key and metadata document of a task: functions of the task alone -/
structure Entry where
  key : String
  cacheClass : String
  taskDoc : String
  deriving DecidableEq, Repr

def entryOf (keyOf docOf : Nat → String) (t : Nat) (_labCtx : Ctx) : Entry :=
  { key := keyOf t, cacheClass := "PickleCache", taskDoc := docOf t }

def showBackend : Backend → String
  | .serial => "serial" | .fork => "fork" | .spawn => "spawn"

/-- driver: `ENV sel <arg|-> <startmethods comma list>` and `ENV view <backend> <imp> <start> <exec> <useCache>` -/
def handle (parts : List String) : String :=
  match parts with
  | ["sel", arg, methods] =>
    let a := if arg == "-" then none else some arg
    match selectBackend a (methods.splitOn ",") with
    | .ok b => s!"ok {showBackend b}"
    | .error .unsupportedDefault => "LabError unsupported-default"
    | .error .unrecognised => "LabError unrecognised"
  | ["view", b, imp, st, ex, uc] =>
    match (match b with | "serial" => some Backend.serial | "fork" => some .fork | "spawn" => some .spawn | _ => none),
          imp.toNat?, st.toNat?, ex.toNat? with
    | some be, some i, some s, some e =>
      let g : Global := { atImport := i, atProcessStart := s, atExecution := e }
      let w := match runsIn be with | .callerProcess => "caller" | .childProcess => "child"
      let ctx := match contextInRun be (fun c => c) [("k", 1)] (uc == "1") with
        | none => "noctx" | some _ => "filtered"
      s!"where={w} start={(startMethod be).getD "-"} view={workerView be g} ctx={ctx}"
    | _, _, _, _ => "bad-op"
  | _ => "bad-op"

end Lt.Env
