/-!
# M3–M6 (coarse): planning, scheduler bookkeeping, runners/executor, store, coordinator loop

Hand-written executable model of `labtech/lab.py` (`TaskState`, `TaskCoordinator.run`,
`Lab.run_tasks`), `labtech/runners/serial.py`, `labtech/runners/process.py`
(`ProcessExecutor`, `ProcessRunner.wait`, fork/spawn `_submit_task`) and the part of
`labtech/runners/base.py` / `labtech/cache.py` that decides load-vs-run-and-save.

No imports: the same definitions are compiled into the native driver (`Main.lean`) that the
correspondence harness runs side by side with the real code, and are what the theorems in
`Props/` quantify over.

Conventions: a *tid* names an equality class of tasks, an *iid* one Python object.
Python `set`/`OrderedSet` = duplicate-free `List`; `set.remove` raising `KeyError` = `none`.
-/
namespace Lt

abbrev Tid := Nat
abbrev Iid := Nat
abbrev Val := Nat

inductive Backend | serial | fork | spawn
  deriving DecidableEq, Repr

/-- The task universe of one `run_tasks` call and the behaviour of user code. -/
structure Problem where
  /-- the equality class of a Python task object -/
  tidOf : Iid → Tid
  /-- every task object found in the parameters of an object, in discovery order
      (`get_direct_dependency_instances`), duplicates included -/
  children : Iid → List Iid
  /-- the `tasks` argument of `run_tasks` -/
  requested : List Iid
  /-- task type of a tid -/
  ty : Tid → Nat
  /-- `max_parallel` of a type -/
  maxPar : Nat → Option Nat
  /-- does the type use a persisting cache (`PickleCache`) rather than `cache=None` -/
  cacheable : Nat → Bool
  /-- `run()` raises -/
  fails : Tid → Bool
  /-- the worker process dies without reporting (process runners only) -/
  dies : Tid → Bool
  /-- `run()` of a task that does not raise by itself: value from the values read from the
      dependency objects in the parameters (`none` = reading `.result` raised `TaskError`);
      `none` result = the task lets that error propagate -/
  behave : Tid → List (Option Val) → Option Val

structure Config where
  backend : Backend
  maxWorkers : Nat
  contOnFail : Bool
  bust : Bool

abbrev Store := List (Tid × Val)

def lookup (t : Tid) : List (Tid × Val) → Option Val
  | [] => none
  | (k, v) :: rest => if k = t then some v else lookup t rest

/-- `TaskCoordinator.use_cache`: `(not bust_cache) and lab.is_cached(task)`;
    `NullCache.is_cached` is always false. -/
def useCache (cfg : Config) (p : Problem) (st : Store) (t : Tid) : Bool :=
  !cfg.bust && p.cacheable (p.ty t) && (lookup t st).isSome

/-! ## sets as lists -/
def sadd (l : List Nat) (x : Nat) : List Nat := if x ∈ l then l else l ++ [x]
def upd (f : Nat → List Nat) (k : Nat) (v : List Nat) : Nat → List Nat :=
  fun x => if x = k then v else f x
/-- first-occurrence de-duplication (`OrderedSet` built by repeated `add`) -/
def dedup : List Nat → List Nat
  | [] => []
  | x :: xs => x :: (dedup xs).filter (· ≠ x)

/-! ## planning: `TaskState.process_tasks` / `insert_task` -/
structure TS where
  pending : List Tid := []                       -- pending_tasks (OrderedSet)
  processed : List Iid := []                     -- processed_task_ids
  ddeps : Tid → List Tid := fun _ => []          -- task_to_direct_dependencies
  pendDeps : Tid → List Tid := fun _ => []       -- task_to_pending_dependencies
  pendDependents : Tid → List Tid := fun _ => [] -- task_to_pending_dependents
  active : List Tid := []                        -- ⋃ type_to_active_tasks
  instances : Tid → List Iid := fun _ => []      -- task_to_instances

def insertDeps (t : Tid) : List Tid → TS → TS
  | [], s => s
  | d :: ds, s =>
    insertDeps t ds { s with
      ddeps := upd s.ddeps t (sadd (s.ddeps t) d)
      pendDeps := upd s.pendDeps t (sadd (s.pendDeps t) d)
      pendDependents := upd s.pendDependents d (sadd (s.pendDependents d) t) }

def insertTask (i : Iid) (t : Tid) (deps : List Tid) (s : TS) : TS :=
  insertDeps t deps { s with
    pending := sadd s.pending t
    instances := upd s.instances t (s.instances t ++ [i]) }

/-- one call of `process_tasks` without its recursive tail: returns the state and
    `all_dependencies` -/
def processLevel (p : Problem) (uc : Tid → Bool) : List Iid → TS → List Iid → TS × List Iid
  | [], s, acc => (s, acc)
  | i :: is, s, acc =>
    if i ∈ s.processed then processLevel p uc is s acc
    else
      let s := { s with processed := s.processed ++ [i] }
      let t := p.tidOf i
      let depInsts := if uc t then [] else p.children i
      let depTids := dedup (depInsts.map p.tidOf)
      processLevel p uc is (insertTask i t depTids s) (acc ++ depInsts)

def processTasks (p : Problem) (uc : Tid → Bool) : Nat → List Iid → TS → TS
  | 0, _, s => s
  | fuel + 1, level, s =>
    let (s', deps) := processLevel p uc level s []
    if deps.isEmpty then s' else processTasks p uc fuel deps s'

/-! ## scheduler: `start_task`, `complete_task`, `get_ready_tasks` -/
def setRemove (l : List Nat) (x : Nat) : Option (List Nat) :=
  if x ∈ l then some (l.filter (· ≠ x)) else none

def startTask (s : TS) (t : Tid) : Option TS :=
  match setRemove s.pending t with
  | none => none
  | some pend => some { s with pending := pend, active := s.active ++ [t] }

/-- `for dependent in pending_dependents[task]: pending_dependencies[dependent].remove(task)` -/
def unblock (t : Tid) : List Tid → (Tid → List Tid) → Option (Tid → List Tid)
  | [], pd => some pd
  | d :: ds, pd => match setRemove (pd d) t with
    | none => none
    | some l => unblock t ds (upd pd d l)

/-- `for dependency in direct_dependencies[task]: pending_dependents[dependency].remove(task)`,
    collecting the dependencies whose set became empty -/
def release (t : Tid) : List Tid → (Tid → List Tid) → Option ((Tid → List Tid) × List Tid)
  | [], pdt => some (pdt, [])
  | d :: ds, pdt => match setRemove (pdt d) t with
    | none => none
    | some l => match release t ds (upd pdt d l) with
      | none => none
      | some (pdt', rem) => some (pdt', if l.isEmpty then d :: rem else rem)

def completeTask (s : TS) (t : Tid) : Option (TS × List Tid) :=
  match setRemove s.active t with
  | none => none
  | some act =>
    match unblock t (s.pendDependents t) s.pendDeps with
    | none => none
    | some pd =>
      match release t (s.ddeps t) s.pendDependents with
      | none => none
      | some (pdt, rem) =>
        some ({ s with active := act, pendDeps := pd, pendDependents := pdt },
              if (pdt t).isEmpty then rem ++ [t] else rem)

def bump (c : Nat → Nat) (k : Nat) : Nat → Nat := fun x => if x = k then c x + 1 else c x
def typeCount (p : Problem) (l : List Tid) (T : Nat) : Nat := (l.filter (fun t => p.ty t = T)).length

def readyAux (p : Problem) (s : TS) : List Tid → (Nat → Nat) → List Tid
  | [], _ => []
  | t :: rest, cnt =>
    if (s.pendDeps t).length > 0 then readyAux p s rest cnt
    else match p.maxPar (p.ty t) with
      | some L => if cnt (p.ty t) ≥ L then readyAux p s rest cnt
                  else t :: readyAux p s rest (bump cnt (p.ty t))
      | none => t :: readyAux p s rest (bump cnt (p.ty t))

def readyTasks (p : Problem) (s : TS) : List Tid := readyAux p s s.pending (typeCount p s.active)

/-! ## runner + executor -/
inductive Outcome | ok (v : Val) | exc | died
  deriving DecidableEq, Repr

inductive Err | keyError | labError (t : Tid)
  deriving DecidableEq, Repr

inductive Status | running | returned (r : List (Tid × Val)) | raised (e : Err)
  deriving DecidableEq, Repr

/-- observable events; the harness records the same ones from the real code -/
inductive Ev
  | submit (t : Tid) (useCache : Bool)
  | start (t : Tid)
  | waitEnter (queued running : List Tid)
  | yield (t : Tid) (o : Outcome)
  | remove (ts : List Tid) (left : List Tid)   -- argument of remove_results; keys left in results_map
  | exec (t : Tid) (seen : List (Option Val))  -- run() executed with these dependency reads
  | load (t : Tid)
  deriving DecidableEq, Repr

structure Job where
  tid : Tid
  useCache : Bool
  /-- the in-memory results the worker can see (`none` = not taken yet) -/
  snap : Option (List (Tid × Val))
  deriving Repr

structure RS where
  ts : TS
  queued : List Job := []            -- executor pending futures (FIFO) / serial deque
  running : List Job := []           -- executor running processes, start order
  futs : List Tid := []              -- future_to_task, submission order
  results : List (Tid × Val) := []   -- results_map
  taskResults : List (Tid × Val) := []
  store : Store := []
  marked : List Iid := []            -- task objects whose result_meta was set
  trace : List Ev := []
  status : Status := .running

/-- what `run()` reads from its dependency objects, given the results it can see -/
def reads (p : Problem) (i : Iid) (snap : List (Tid × Val)) : List (Option Val) :=
  (p.children i).map (fun c => lookup (p.tidOf c) snap)

/-- the first object inserted for a tid is the one that is submitted -/
def repr0 (s : TS) (t : Tid) : Iid := (s.instances t).headD 0

/-- outcome of a job whose snapshot is known (`run_or_load_task`) -/
def runOutcome (p : Problem) (ts : TS) (store : Store) (j : Job) : Outcome :=
  if j.useCache then
    match lookup j.tid store with
    | some v => .ok v
    | none => .exc
  else if p.fails j.tid then .exc
  else match p.behave j.tid (reads p (repr0 ts j.tid) (j.snap.getD [])) with
    | some v => .ok v
    | none => .exc

/-- a worker process may also die without reporting -/
def jobOutcome (p : Problem) (ts : TS) (store : Store) (j : Job) : Outcome :=
  if p.dies j.tid then .died else runOutcome p ts store j

/-- events a job's execution contributes (`exec`/`load` records written by the worker) -/
def runEvents (p : Problem) (ts : TS) (j : Job) : List Ev :=
  if j.useCache then [Ev.load j.tid]
  else [Ev.exec j.tid (reads p (repr0 ts j.tid) (j.snap.getD []))]

def jobEvents (p : Problem) (ts : TS) (j : Job) : List Ev :=
  if p.dies j.tid then [] else runEvents p ts j

def takeN {α} : Nat → List α → List α × List α
  | 0, l => ([], l)
  | _, [] => ([], [])
  | n + 1, x :: xs => let (a, b) := takeN n xs; (x :: a, b)

/-- `ProcessExecutor._start_processes`; a forked worker inherits the parent's results map as
    it is at this moment -/
def startProcesses (cfg : Config) (rs : RS) : RS :=
  let n := cfg.maxWorkers - rs.running.length
  let (go, stay) := takeN n rs.queued
  let go := go.map (fun j => if cfg.backend = .fork then { j with snap := some rs.results } else j)
  { rs with queued := stay, running := rs.running ++ go,
            trace := rs.trace ++ go.map (fun j => Ev.start j.tid) }

/-- `Runner.submit_task`; the spawn runner copies the direct dependencies' results now -/
def submitTask (cfg : Config) (p : Problem) (rs : RS) (t : Tid) : RS :=
  let uc := useCache cfg p rs.store t
  let j : Job := { tid := t, useCache := uc,
                   snap := if cfg.backend = .spawn
                           then some (rs.results.filter (fun kv => kv.1 ∈ rs.ts.ddeps t))
                           else none }
  let rs := { rs with queued := rs.queued ++ [j], futs := rs.futs ++ [t],
                      trace := rs.trace ++ [Ev.submit t uc] }
  if cfg.backend = .serial then rs else startProcesses cfg rs

def submitAll (cfg : Config) (p : Problem) : List Tid → RS → RS
  | [], rs => rs
  | t :: ts, rs =>
    match startTask rs.ts t with
    | none => { rs with status := .raised .keyError }
    | some s' => submitAll cfg p ts (submitTask cfg p { rs with ts := s' } t)

/-- what the environment decides for one wait: for every running process (by position), has
    its outcome (result, or death) become visible. The serial runner ignores it. -/
structure Choice where
  finish : Nat → Bool

def removeResults (res : List (Tid × Val)) (ts : List Tid) : List (Tid × Val) :=
  res.filter (fun kv => kv.1 ∉ ts)

/-- the body of `process_completed_tasks`' loop for one yielded `(task, res)`;
    the runner stores a successful result right before yielding it -/
def processYield (cfg : Config) (reqTids : List Tid) (rs : RS) (t : Tid) (o : Outcome) : RS :=
  let rs := { rs with trace := rs.trace ++ [Ev.yield t o] }
  match o with
  | .ok v =>
    let rs := { rs with results := (t, v) :: rs.results.filter (fun kv => kv.1 ≠ t),
                        taskResults := if t ∈ reqTids
                                       then (t, v) :: rs.taskResults.filter (fun kv => kv.1 ≠ t)
                                       else rs.taskResults }
    match completeTask rs.ts t with
    | none => { rs with status := .raised .keyError }
    | some (s', rem) =>
      let res' := removeResults rs.results rem
      { rs with ts := s', marked := rs.marked ++ rs.ts.instances t,
                results := res', trace := rs.trace ++ [Ev.remove rem (res'.map (·.1))] }
  | _ =>
    match completeTask rs.ts t with
    | none => { rs with status := .raised .keyError }
    | some (s', rem) =>
      let res' := removeResults rs.results rem
      { rs with ts := s',
                results := if cfg.contOnFail then res' else rs.results,
                trace := if cfg.contOnFail then rs.trace ++ [Ev.remove rem (res'.map (·.1))] else rs.trace,
                status := if cfg.contOnFail then rs.status else .raised (.labError t) }

/-- yields of one wait, in `future_to_task` order; each future is forgotten before its outcome
    is yielded; a failure without `continue_on_failure` raises out of the loop -/
def processYields (cfg : Config) (req : List Tid) : List (Tid × Outcome) → RS → RS
  | [], rs => rs
  | (t, o) :: rest, rs =>
    match rs.status with
    | .running =>
      processYields cfg req rest (processYield cfg req { rs with futs := rs.futs.filter (· ≠ t) } t o)
    | _ => rs

def enumFrom {α} : Nat → List α → List (Nat × α)
  | _, [] => []
  | n, x :: xs => (n, x) :: enumFrom (n + 1) xs

/-- store after a worker that ran to completion saved its result -/
def saveIfRan (p : Problem) (store : Store) (j : Job) (o : Outcome) : Store :=
  match o with
  | .ok v => if p.cacheable (p.ty j.tid) && !j.useCache
             then (j.tid, v) :: store.filter (fun kv => kv.1 ≠ j.tid) else store
  | _ => store

def saveAll (p : Problem) (ts : TS) : List Job → Store → Store
  | [], st => st
  | j :: js, st => saveAll p ts js (saveIfRan p st j (jobOutcome p ts st j))

/-- one `runner.wait` of a process runner -/
def waitProcess (cfg : Config) (p : Problem) (req : List Tid) (c : Choice) (rs : RS) : RS :=
  let rs := { rs with trace := rs.trace ++ [Ev.waitEnter (rs.queued.map Job.tid) (rs.running.map Job.tid)] }
  let idx := enumFrom 0 rs.running
  let fin := (idx.filter (fun ij => c.finish ij.1)).map (·.2)
  let stay := (idx.filter (fun ij => !c.finish ij.1)).map (·.2)
  let outcomes : List (Tid × Outcome) := fin.map (fun j => (j.tid, jobOutcome p rs.ts rs.store j))
  let evs := (fin.map (jobEvents p rs.ts)).flatten
  -- workers that ran to completion saved their result before handing it over
  let store := saveAll p rs.ts fin rs.store
  let rs := startProcesses cfg { rs with running := stay, store := store, trace := rs.trace ++ evs }
  -- done futures in future_to_task order
  let ys := rs.futs.filterMap (fun t => outcomes.find? (·.1 = t))
  processYields cfg req ys rs

/-- one `runner.wait` of the serial runner: run the head of the deque in the caller -/
def waitSerial (cfg : Config) (p : Problem) (req : List Tid) (rs : RS) : RS :=
  let rs := { rs with trace := rs.trace ++ [Ev.waitEnter (rs.queued.map Job.tid) []] }
  match rs.queued with
  | [] => rs
  | j :: rest =>
    let j := { j with snap := some rs.results }
    let o := runOutcome p rs.ts rs.store j      -- no worker process that could die
    let evs := runEvents p rs.ts j
    let rs := { rs with queued := rest, store := saveIfRan p rs.store j o,
                        futs := rs.futs.filter (· ≠ j.tid),
                        trace := rs.trace ++ [Ev.start j.tid] ++ evs }
    processYield cfg req rs j.tid o

/-- `len(state.pending_tasks) > 0 or runner.pending_task_count() > 0` -/
def loopCond (rs : RS) : Bool := !rs.ts.pending.isEmpty || !rs.futs.isEmpty

/-- one iteration of the coordinator's main loop -/
def iteration (cfg : Config) (p : Problem) (req : List Tid) (c : Choice) (rs : RS) : RS :=
  let rs := submitAll cfg p (readyTasks p rs.ts) rs
  match rs.status with
  | .running =>
    if cfg.backend = .serial then waitSerial cfg p req rs else waitProcess cfg p req c rs
  | _ => rs

def runLoop (cfg : Config) (p : Problem) (req : List Tid) : List Choice → RS → RS
  | [], rs => rs
  | c :: cs, rs =>
    match rs.status with
    | .running => if loopCond rs then runLoop cfg p req cs (iteration cfg p req c rs) else rs
    | _ => rs

/-- `return task_results`, re-keyed by `run_tasks` in request order -/
def finish (req : List Tid) (rs : RS) : RS :=
  match rs.status with
  | .running =>
    if loopCond rs then rs
    else { rs with status := .returned ((dedup req).filterMap (fun t => (lookup t rs.taskResults).map (fun v => (t, v)))) }
  | _ => rs

def plan (cfg : Config) (p : Problem) (store : Store) (fuel : Nat) : TS :=
  processTasks p (useCache cfg p store) fuel p.requested {}

def reqTids (p : Problem) : List Tid := p.requested.map p.tidOf

def initRS (cfg : Config) (p : Problem) (store : Store) (fuel : Nat) : RS :=
  { ts := plan cfg p store fuel, store := store }

def run (cfg : Config) (p : Problem) (store : Store) (fuel : Nat) (sched : List Choice) : RS :=
  finish (reqTids p) (runLoop cfg p (reqTids p) sched (initRS cfg p store fuel))

end Lt
