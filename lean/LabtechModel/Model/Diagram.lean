/-!
# M11 — the task diagram (labtech/diagram.py, find_tasks_in_param of labtech/tasks.py)

Import-free executable model of `TaskStructure.build`, `TaskStructure.add_task_type`,
`TaskStructure.add_relationship`, `diagram_task_type`, `diagram_task_relationship`,
`diagram_task_structure` and `build_task_diagram`.

A task is a type id and named fields; a field holds a scalar (no tasks inside; scalars are opaque
for the diagram), a tuple, a frozendict (insertion-ordered `(key, value)` list) or a task — the
values that `immutable_param_value` leaves in a constructed task.  Type names, type-hint strings
and the `run()` return annotation are opaque tokens of a type table supplied by the caller.
-/
namespace Lt.Diag

mutual
inductive Value where
  | scalar
  | tuple (items : List Value)
  | dict (items : List (String × Value))
  | task (t : Task)
inductive Task where
  | mk (ty : Nat) (fields : List (String × Value))
end

def Task.ty : Task → Nat
  | .mk ty _ => ty
def Task.fields : Task → List (String × Value)
  | .mk _ fs => fs

/-- `is_task(param_value)` -/
def Value.isTask : Value → Bool
  | .task _ => true
  | _ => false

/-! ## find_tasks_in_param
the tasks found in a parameter value: the value itself when it is a task, otherwise the tasks
found in the items of a tuple / the values of a dict, in order; the search does not descend into
a task that it found.  (`searched_coll_ids` guards against a collection that contains itself,
which immutable tuples / frozendicts cannot.) -/
mutual
def findTasks : Value → List Task
  | .scalar => []
  | .tuple items => findList items
  | .dict items => findFields items
  | .task t => [t]
def findList : List Value → List Task
  | [] => []
  | v :: vs => findTasks v ++ findList vs
def findFields : List (String × Value) → List Task
  | [] => []
  | (_, v) :: rest => findTasks v ++ findFields rest
end

/-- the tasks that `build` appends to `found_tasks` for one task: for each field in order, the tasks
found in its value -/
def children (t : Task) : List Task := findFields t.fields

/-! ## The structure: `task_type_to_rels` -/

/-- `TaskRelKey(from_param_name, to_task_type)` -/
abbrev RelKey := String × Nat
/-- `dict[TaskRelKey, TaskRelInfo]`, insertion-ordered; the `Bool` is `multi_cardinality` -/
abbrev Rels := List (RelKey × Bool)
/-- `dict[type[Task], dict[TaskRelKey, TaskRelInfo]]`, insertion-ordered -/
abbrev Struct := List (Nat × Rels)

/-- `rels[key] = info` if the key is new (appended), else the OR of the old and the new flag, in place -/
def relsAdd : Rels → RelKey → Bool → Rels
  | [], k, m => [(k, m)]
  | (k', m') :: rest, k, m =>
    if k' = k then (k', m' || m) :: rest else (k', m') :: relsAdd rest k m

/-- `task_type_to_rels.setdefault(task_type, {})` -/
def addType : Struct → Nat → Struct
  | [], ty => [(ty, [])]
  | (ty', r) :: rest, ty =>
    if ty' = ty then (ty', r) :: rest else (ty', r) :: addType rest ty

/-- `add_relationship`; `self.task_type_to_rels[from_task_type]` raises `KeyError` for an unrecorded
type — `build` records the type first, so that branch (`[]`, nothing changed) is never taken there
(`processTask` below; `Props/C20.lean: addRel_recorded`). -/
def addRel : Struct → Nat → RelKey → Bool → Struct
  | [], _, _, _ => []
  | (ty', r) :: rest, frm, k, m =>
    if ty' = frm then (ty', relsAdd r k m) :: rest else (ty', r) :: addRel rest frm k m

/-- the `add_relationship` calls for one field: one per found sub-task,
`multi_cardinality = not is_task(param_value)` -/
def fieldRels (name : String) (v : Value) : List (RelKey × Bool) :=
  (findTasks v).map (fun d => ((name, d.ty), !v.isTask))

/-- the `add_relationship` calls for one task, in program order -/
def taskRels : List (String × Value) → List (RelKey × Bool)
  | [] => []
  | (name, v) :: rest => fieldRels name v ++ taskRels rest

/-- the body of the `while` loop for one popped task, without the queue update -/
def processTask (s : Struct) (t : Task) : Struct :=
  (taskRels t.fields).foldl (fun s r => addRel s t.ty r.1 r.2) (addType s t.ty)

/-- `TaskStructure.build`'s loop: pop the head of `found_tasks`, record it, append its children.
`fuel` bounds the number of iterations (Python has none; `Props/C20.lean: build_fuel_sufficient`). -/
def buildLoop : Nat → List Task → Struct → Struct
  | 0, _, s => s
  | _ + 1, [], s => s
  | n + 1, t :: q, s => buildLoop n (q ++ children t) (processTask s t)

/-! total number of task sub-terms (duplicates counted) -/
mutual
def sizeValue : Value → Nat
  | .scalar => 0
  | .tuple items => sizeList items
  | .dict items => sizeFields items
  | .task t => sizeTask t
def sizeTask : Task → Nat
  | .mk _ fields => 1 + sizeFields fields
def sizeList : List Value → Nat
  | [] => 0
  | v :: vs => sizeValue v + sizeList vs
def sizeFields : List (String × Value) → Nat
  | [] => 0
  | (_, v) :: rest => sizeValue v + sizeFields rest
end

def sizeQueue : List Task → Nat
  | [] => 0
  | t :: q => sizeTask t + sizeQueue q

def build (tasks : List Task) : Struct := buildLoop (sizeQueue tasks) tasks []

/-! ## The renderer -/

/-- what the renderer reads from a task type: `format_type(task_type)`, for each dataclass field
`(format_type(field.type), field.name)`, and `format_type` of `run`'s return hint (if any) -/
structure TypeInfo where
  name : String
  fields : List (String × String)
  ret : Option String

abbrev TypeTable := List (Nat × TypeInfo)

def lookupType (tbl : TypeTable) (ty : Nat) : Option TypeInfo :=
  match tbl with
  | [] => none
  | (k, i) :: rest => if k = ty then some i else lookupType rest ty

/-- `'' if run_return_type is None else f' {format_type(run_return_type)}'` -/
def runSuffix : Option String → String
  | none => ""
  | some r => " " ++ r

/-- `diagram_task_type`, as lines -/
def typeLines (i : TypeInfo) : List String :=
  ["class " ++ i.name]
  ++ i.fields.map (fun f => i.name ++ " : " ++ f.1 ++ " " ++ f.2)
  ++ [i.name ++ " : run()" ++ runSuffix i.ret]

def formatMany (m : Bool) : String := if m then "\"many\" " else ""

/-- one line of `diagram_task_relationship` -/
def relLine (fromName toName : String) (param : String) (m : Bool) : String :=
  fromName ++ " <-- " ++ formatMany m ++ toName ++ ": " ++ param

def joinWith (sep : String) : List String → String
  | [] => ""
  | [x] => x
  | x :: rest => x ++ sep ++ joinWith sep rest

/-- `diagram_task_relationship`, as lines (`none`: a type without a table entry) -/
def relLines (tbl : TypeTable) (fromName : String) : Rels → Option (List String)
  | [] => some []
  | ((p, d), m) :: rest =>
    match lookupType tbl d, relLines tbl fromName rest with
    | some di, some ls => some (relLine fromName di.name p m :: ls)
    | _, _ => none

def classBlocks (tbl : TypeTable) : Struct → Option (List (List String))
  | [] => some []
  | (ty, _) :: rest =>
    match lookupType tbl ty, classBlocks tbl rest with
    | some i, some bs => some (typeLines i :: bs)
    | _, _ => none

/-- one group of arrows per type that has relationships (`if relationships`) -/
def relBlocks (tbl : TypeTable) : Struct → Option (List (List String))
  | [] => some []
  | (ty, rels) :: rest =>
    match lookupType tbl ty, relBlocks tbl rest with
    | some i, some bs =>
      if rels.isEmpty then some bs
      else match relLines tbl i.name rels with
        | some ls => some (ls :: bs)
        | none => none
    | _, _ => none

def isBlank (s : String) : Bool := s.toList.all Char.isWhitespace

/-- `textwrap.indent(text, prefix)` on a text given as its `'\n'`-separated lines: lines that
consist solely of whitespace are left alone -/
def indentLines (pre : String) (ls : List String) : List String :=
  ls.map (fun l => if isBlank l then l else pre ++ l)

/-- blocks joined by `'\n\n'`, as a line list: an empty line between consecutive blocks -/
def blocksToLines : List (List String) → List String
  | [] => [""]
  | [b] => b
  | b :: rest => b ++ [""] ++ blocksToLines rest

def indentation : String := "    "

/-- `diagram_task_structure` -/
def renderStruct (tbl : TypeTable) (direction : String) (s : Struct) : Option String :=
  match classBlocks tbl s, relBlocks tbl s with
  | some cbs, some rbs =>
    some ("classDiagram\n"
      ++ joinWith "\n" (indentLines indentation ["direction " ++ direction]) ++ "\n\n"
      ++ joinWith "\n" (indentLines indentation (blocksToLines cbs)) ++ "\n\n\n"
      ++ joinWith "\n" (indentLines indentation (blocksToLines rbs)))
  | _, _ => none

/-- `build_task_diagram` -/
def buildTaskDiagram (tbl : TypeTable) (direction : String) (tasks : List Task) : Option String :=
  renderStruct tbl direction (build tasks)

end Lt.Diag
