/-!
# M9 — the log hand-over (labtech/utils.py `LoggerFileProxy`; labtech/runners/process.py
`_subprocess_func`, `_consume_log_queue`, `ProcessRunner.wait`; the loop of labtech/lab.py)

Import-free executable model.

* `pwrite` / `pflush`: `LoggerFileProxy.write` / `.flush` over the buffer list `self.bufs`.
* a worker = the list of things `run()` does to the three channels (`Emit`), followed by the
  `finally` of `_subprocess_func` (flush `sys.stdout`, flush `sys.stderr`); `workerRecords` is the
  sequence of log records it puts on `log_queue` (a `QueueHandler`: one synchronous `put` per record),
  all of them before `_subprocess_target` puts the result on the result queue.
* the parent = `ProcessRunner.wait` rounds: drain the log queue, consume the result queue
  (`executor.wait`), drain the log queue again, yield; the coordinator loops while
  `pending_task_count() > 0`.  What the workers do in between is the environment: a universally
  quantified schedule of `advance` (a worker puts its next k records) and `finish` (it puts the rest,
  then its result) steps before, inside and after the `executor.wait` of every round.
-/
namespace Lt.Log

/-- Python's `\s` for `str` patterns (`str.isspace`, Unicode 15 as in CPython 3.12) -/
def pySpace (c : Char) : Bool :=
  let n := c.toNat
  (0x09 ≤ n && n ≤ 0x0D) || (0x1C ≤ n && n ≤ 0x20) || n == 0x85 || n == 0xA0 || n == 0x1680
  || (0x2000 ≤ n && n ≤ 0x200A) || n == 0x2028 || n == 0x2029 || n == 0x202F || n == 0x205F || n == 0x3000

/-- `whitespace_only_re.fullmatch(buf)` (`[\s]*`; the empty string matches) -/
def blank (s : String) : Bool := s.toList.all pySpace

/-! ## LoggerFileProxy -/

/-- `write(buf)`: whitespace-only writes are dropped -/
def pwrite (bufs : List String) (s : String) : List String :=
  if blank s then bufs else bufs ++ [s]

/-- `flush()`: `(self.bufs afterwards, the calls of logger_func)`; a call is given as the buffer list
whose prefixed `'\n'`-join is the message (`renderMsg`) -/
def pflush (bufs : List String) : List String × List (List String) :=
  if bufs.isEmpty then (bufs, []) else ([], [bufs])

inductive POp where
  | write (s : String)
  | flush

/-- a sequence of operations on one proxy: final `bufs` and every call of `logger_func`, in order -/
def prun : List String → List POp → List String × List (List String)
  | b, [] => (b, [])
  | b, .write s :: ops => prun (pwrite b s) ops
  | b, .flush :: ops =>
    let r := prun (pflush b).1 ops
    (r.1, (pflush b).2 ++ r.2)

def joinWith (sep : String) : List String → String
  | [] => ""
  | [x] => x
  | x :: rest => x ++ sep ++ joinWith sep rest

/-- `'\n'.join([f'{self.prefix}{buf}' for buf in self.bufs])` -/
def renderMsg (pre : String) (bufs : List String) : String :=
  joinWith "\n" (bufs.map (fun b => pre ++ b))

/-! ## a worker -/

/-- a record on the log queue, by origin -/
inductive Rec where
  | logged (m : String)            -- `labtech.logger.info(m)` in `run()`
  | stdout (bufs : List String)    -- `logger.info(...)` by the `sys.stdout` proxy
  | stderr (bufs : List String)    -- `logger.error(...)` by the `sys.stderr` proxy

def stdoutPrefix : String := "Captured STDOUT:\n"
def stderrPrefix : String := "Captured STDERR:\n"

def Rec.text : Rec → String
  | .logged m => m
  | .stdout bufs => renderMsg stdoutPrefix bufs
  | .stderr bufs => renderMsg stderrPrefix bufs

/-- `true` = ERROR, `false` = INFO -/
def Rec.isError : Rec → Bool
  | .stderr _ => true
  | _ => false

inductive Emit where
  | log (m : String)
  | out (s : String)     -- `sys.stdout.write(s)`
  | err (s : String)     -- `sys.stderr.write(s)`
  | flushOut
  | flushErr

structure WState where
  out : List String
  err : List String

def emitStep (st : WState) : Emit → WState × List Rec
  | .log m => (st, [.logged m])
  | .out s => ({ st with out := pwrite st.out s }, [])
  | .err s => ({ st with err := pwrite st.err s }, [])
  | .flushOut => ({ st with out := (pflush st.out).1 }, (pflush st.out).2.map Rec.stdout)
  | .flushErr => ({ st with err := (pflush st.err).1 }, (pflush st.err).2.map Rec.stderr)

def emitAll : WState → List Emit → WState × List Rec
  | st, [] => (st, [])
  | st, e :: es =>
    let r := emitAll (emitStep st e).1 es
    (r.1, (emitStep st e).2 ++ r.2)

/-- everything a worker puts on the log queue before its result: what `run()` causes, then the
`finally` of `_subprocess_func` (`sys.stdout.flush()`, `sys.stderr.flush()`) -/
def workerRecords (ems : List Emit) : List Rec :=
  (emitAll { out := [], err := [] } (ems ++ [.flushOut, .flushErr])).2

/-- a worker whose process dies hard (SIGKILL, `os._exit`) after `run()` got through `pre`: no `finally`, no
flush — what it has put on the log queue is exactly what `pre` caused (every logger record, and whatever
captured output an explicit flush had already handed over); for the parent it then counts as done
(`is_alive()` is false → `TaskDiedError`) -/
def diedRecords (pre : List Emit) : List Rec :=
  (emitAll { out := [], err := [] } pre).2

/-! ## the parent -/

inductive Env where
  | advance (w k : Nat)   -- worker w puts its next k records
  | finish (w : Nat)      -- worker w puts its remaining records, then its result

structure St where
  n : Nat                          -- number of workers (futures tracked by the runner)
  todo : Nat → List Rec            -- records a worker has not put yet
  finished : Nat → Bool            -- its result is on the result queue (or consumed)
  logq : List (Nat × Rec)          -- log_queue, FIFO, tagged with the putting worker
  resq : List Nat                  -- result queue
  consumed : List Nat              -- futures whose result the parent has taken (and yielded)
  delivered : List (Nat × Rec)     -- records handled by `logger.handle` in the parent, in order

def upd {α : Type} (f : Nat → α) (i : Nat) (v : α) : Nat → α := fun j => if j = i then v else f j

def tag (w : Nat) (l : List Rec) : List (Nat × Rec) := l.map (fun r => (w, r))

def envStep (s : St) : Env → St
  | .advance w k =>
    if w < s.n ∧ s.finished w = false then
      { s with todo := upd s.todo w ((s.todo w).drop k), logq := s.logq ++ tag w ((s.todo w).take k) }
    else s
  | .finish w =>
    if w < s.n ∧ s.finished w = false then
      { s with todo := upd s.todo w [], finished := upd s.finished w true,
               logq := s.logq ++ tag w (s.todo w), resq := s.resq ++ [w] }
    else s

/-- `_consume_log_queue`: `get_nowait` until `Empty`, handling each record once -/
def drainLoop : List (Nat × Rec) → List (Nat × Rec) → List (Nat × Rec)
  | [], d => d
  | r :: q, d => drainLoop q (d ++ [r])

def consumeLog (s : St) : St := { s with delivered := drainLoop s.logq s.delivered, logq := [] }

/-- `executor.wait`: every result on the result queue is taken and its future becomes done -/
def consumeResults (s : St) : St := { s with consumed := s.consumed ++ s.resq, resq := [] }

structure Round where
  a : List Env    -- before the call of `wait`
  b : List Env    -- after the first drain, while the parent is inside `executor.wait`
  c : List Env    -- after the results were taken, before the second drain

/-- one `ProcessRunner.wait` (all done futures are popped and yielded) -/
def waitRound (s : St) (r : Round) : St :=
  let s := r.a.foldl envStep s
  let s := consumeLog s
  let s := r.b.foldl envStep s
  let s := consumeResults s
  let s := r.c.foldl envStep s
  consumeLog s

/-- `runner.pending_task_count() == 0` -/
def allConsumed (s : St) : Bool := (List.range s.n).all (fun w => s.consumed.contains w)

/-- the coordinator loop: `while … pending_task_count() > 0: … runner.wait(…)` -/
def loop : St → List Round → St
  | s, [] => s
  | s, r :: rs => if allConsumed s then s else loop (waitRound s r) rs

/-! ### the loop with task failures
`wait` is a generator: after the second drain it yields the done futures in `future_to_task` order
(submission order = worker index); the coordinator handles one outcome per yield, and with
`continue_on_failure=False` `handle_failure` raises `LabError` at the first failed outcome — the generator is
abandoned there and `run_tasks` exits by that exception. -/

inductive Exit where
  | running            -- the schedule ran out before the loop ended
  | returned           -- `pending_task_count() == 0`: `run_tasks` returns
  | raised (w : Nat)   -- `LabError` for the failed outcome of worker `w`

/-- the outcomes one `wait` yields: the futures that became done in it, in `future_to_task` order -/
def yieldOrder (n : Nat) (before after : List Nat) : List Nat :=
  (List.range n).filter (fun w => after.contains w && !before.contains w)

def runLoop (cof : Bool) (fails : Nat → Bool) : St → List Round → St × Exit
  | s, [] => (s, if allConsumed s then .returned else .running)
  | s, r :: rs =>
    if allConsumed s then (s, .returned)
    else
      match (if cof then none else (yieldOrder s.n s.consumed (waitRound s r).consumed).find? fails) with
      | some w => (waitRound s r, .raised w)
      | none => runLoop cof fails (waitRound s r) rs

def init (n : Nat) (recs : Nat → List Rec) : St :=
  { n := n, todo := recs, finished := fun _ => false, logq := [], resq := [], consumed := [], delivered := [] }

/-- the records of worker `w` in a tagged list, in order -/
def proj (w : Nat) (l : List (Nat × Rec)) : List Rec :=
  (l.filter (fun x => x.1 == w)).map Prod.snd

end Lt.Log
