import LabtechModel.Model.Env
/-!
# C16 — Each task runs in the environment its backend and context promise

This property is *partial* by nature: which start method CPython really uses and what memory a child
really shares is runtime truth, observed on real fork/spawn/serial workers by the harness. What is
proved is the decision logic and the hand-over that labtech itself performs.
-/
namespace Lt.Props.C16
open Lt.Env

/-- whichever backend: when `run()` executes, the task's context is its own filter applied to the
    Lab's context -/
theorem context_seen (b : Backend) (filt : Ctx → Ctx) (labCtx : Ctx) :
    contextInRun b filt labCtx false = some (filt labCtx) := by
  cases b <;> simp [contextInRun, contextPassed]

/-- a loaded task's `run()` does not execute, and no context is set -/
theorem no_context_when_loaded (b : Backend) (filt : Ctx → Ctx) (labCtx : Ctx) :
    contextInRun b filt labCtx true = none := by simp [contextInRun]

/-- the context never influences the cache key or the stored metadata of any task -/
theorem context_noninterference (keyOf docOf : Nat → String) (t : Nat) (c₁ c₂ : Ctx) :
    entryOf keyOf docOf t c₁ = entryOf keyOf docOf t c₂ := rfl

/-- the decision table of `Lab.__init__` -/
theorem select_named (ms : List String) :
    selectBackend (some "fork") ms = .ok .fork ∧ selectBackend (some "spawn") ms = .ok .spawn ∧
    selectBackend (some "serial") ms = .ok .serial := by
  simp [selectBackend]

theorem select_unknown_rejected (s : String) (ms : List String)
    (h1 : s ≠ "fork") (h2 : s ≠ "spawn") (h3 : s ≠ "serial") :
    selectBackend (some s) ms = .error .unrecognised := by
  simp [selectBackend, h1, h2, h3]

theorem select_default (ms : List String) :
    selectBackend none ms =
      if "fork" ∈ ms then .ok .fork else if "spawn" ∈ ms then .ok .spawn else .error .unsupportedDefault := rfl

/-- the executor creates its processes with the start method named by the backend, and the serial
    runner creates none -/
theorem start_method (b : Backend) :
    (b = .serial → startMethod b = none ∧ runsIn b = .callerProcess) ∧
    (b = .fork → startMethod b = some "fork" ∧ runsIn b = .childProcess) ∧
    (b = .spawn → startMethod b = some "spawn" ∧ runsIn b = .childProcess) := by
  cases b <;> simp [startMethod, runsIn]

/-- memory: spawn sees the freshly imported value, fork the parent's value at process start, serial
    the caller's current value -/
theorem worker_view (g : Global) :
    workerView .spawn g = g.atImport ∧ workerView .fork g = g.atProcessStart ∧
    workerView .serial g = g.atExecution := ⟨rfl, rfl, rfl⟩

/-- under spawn nothing the parent did to the global after import is visible -/
theorem spawn_shares_nothing (g g' : Global) (h : g.atImport = g'.atImport) :
    workerView .spawn g = workerView .spawn g' := by simp [workerView, h]

example : workerView .spawn ⟨0, 1, 2⟩ = 0 ∧ workerView .fork ⟨0, 1, 2⟩ = 1 ∧ workerView .serial ⟨0, 1, 2⟩ = 2 ∧
    selectBackend none ["spawn", "forkserver"] = .ok .spawn ∧
    contextInRun .spawn (fun c => c.filter (fun kv => kv.1 == "a")) [("a", 1), ("b", 2)] false = some [("a", 1)] := by
  refine ⟨rfl, rfl, rfl, by simp [selectBackend], by simp [contextInRun, contextPassed]⟩

end Lt.Props.C16
