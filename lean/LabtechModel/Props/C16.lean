import LabtechModel.Model.Env
import LabtechModel.Proofs.Inv2Erase
/-!
# C16 — Each task runs in the environment its backend and context promise

This property is *partial* by nature: which start method CPython really uses and what memory a child
really shares is runtime truth, observed on real fork/spawn/serial workers by the harness. What is
proved is the decision logic and the hand-over that labtech itself performs.
-/
namespace Lt.Props.C16
open Lt.Env

/-- whichever backend: when `run()` executes, the task's context is its own filter applied to the
    Lab's context -/
theorem context_seen (b : Env.Backend) (filt : Ctx → Ctx) (labCtx : Ctx) :
    contextInRun b filt labCtx false = some (filt labCtx) := by
  cases b <;> simp [contextInRun, contextPassed]

/-- a loaded task's `run()` does not execute, and no context is set -/
theorem no_context_when_loaded (b : Env.Backend) (filt : Ctx → Ctx) (labCtx : Ctx) :
    contextInRun b filt labCtx true = none := by simp [contextInRun]

/-- the context never influences the cache key or the stored metadata of any task -/
theorem context_noninterference (keyOf docOf : Nat → String) (t : Nat) (c₁ c₂ : Ctx) :
    entryOf keyOf docOf t c₁ = entryOf keyOf docOf t c₂ := rfl

/-- the decision table of `Lab.__init__` -/
theorem select_named (ms : List String) :
    selectBackend (some "fork") ms = .ok .fork ∧ selectBackend (some "spawn") ms = .ok .spawn ∧
    selectBackend (some "serial") ms = .ok .serial := by
  simp [selectBackend]

theorem select_unknown_rejected (s : String) (ms : List String)
    (h1 : s ≠ "fork") (h2 : s ≠ "spawn") (h3 : s ≠ "serial") :
    selectBackend (some s) ms = .error .unrecognised := by
  simp [selectBackend, h1, h2, h3]

theorem select_default (ms : List String) :
    selectBackend none ms =
      if "fork" ∈ ms then .ok .fork else if "spawn" ∈ ms then .ok .spawn else .error .unsupportedDefault := rfl

/-- the executor creates its processes with the start method named by the backend, and the serial
    runner creates none -/
theorem start_method (b : Env.Backend) :
    (b = .serial → startMethod b = none ∧ runsIn b = .callerProcess) ∧
    (b = .fork → startMethod b = some "fork" ∧ runsIn b = .childProcess) ∧
    (b = .spawn → startMethod b = some "spawn" ∧ runsIn b = .childProcess) := by
  cases b <;> simp [startMethod, runsIn]

/-- memory: spawn sees the freshly imported value, fork the parent's value at process start, serial
    the caller's current value -/
theorem worker_view (g : Global) :
    workerView .spawn g = g.atImport ∧ workerView .fork g = g.atProcessStart ∧
    workerView .serial g = g.atExecution := ⟨rfl, rfl, rfl⟩

/-- under spawn nothing the parent did to the global after import is visible -/
theorem spawn_shares_nothing (g g' : Global) (h : g.atImport = g'.atImport) :
    workerView .spawn g = workerView .spawn g' := by simp [workerView, h]

example : workerView .spawn ⟨0, 1, 2⟩ = 0 ∧ workerView .fork ⟨0, 1, 2⟩ = 1 ∧ workerView .serial ⟨0, 1, 2⟩ = 2 ∧
    selectBackend none ["spawn", "forkserver"] = .ok .spawn ∧
    contextInRun .spawn (fun c => c.filter (fun kv => kv.1 == "a")) [("a", 1), ("b", 2)] false = some [("a", 1)] := by
  refine ⟨rfl, rfl, rfl, by simp [selectBackend], by simp [contextInRun, contextPassed]⟩

end Lt.Props.C16

namespace Lt.Props.C16
open Lt

/-- what erasure keeps of an event: its kind, task, `use_cache` flag, the outcome constructor, the
    removed / retained keys, and which dependency reads succeeded — only computed values are dropped -/
theorem zev_spec (t : Tid) (uc : Bool) (v : Val) (seen : List (Option Val)) (a b : List Tid) :
    zev (.submit t uc) = .submit t uc ∧ zev (.start t) = .start t ∧ zev (.load t) = .load t ∧
    zev (.waitEnter a b) = .waitEnter a b ∧ zev (.remove a b) = .remove a b ∧
    zev (.yield t (.ok v)) = .yield t (.ok 0) ∧ zev (.yield t .exc) = .yield t .exc ∧
    zev (.yield t .died) = .yield t .died ∧
    zev (.exec t seen) = .exec t (seen.map (Option.map (fun _ => 0))) :=
  ⟨rfl, rfl, rfl, rfl, rfl, rfl, rfl, rfl, rfl⟩

/-- two problems that differ only in what `run()` computes (`behave`: context, arithmetic, …) and
    have the same success pattern have runs of the same shape: equal traces up to values, equal
    store keys, equal returned keys -/
theorem context_noninterference_run (cfg : Config) (p : Problem)
    (b₂ : Tid → List (Option Val) → Option Val) (store : Store) (fuel : Nat) (sched : List Choice)
    (obj : Tid → Iid) (H : RefHypF p obj) (hcf : cfg.contOnFail = true)
    (hpat : ∀ t ∈ (plan cfg p store fuel).pending,
      (refEvalF cfg p store obj t).isSome = (refEvalF cfg { p with behave := b₂ } store obj t).isSome) :
    (run cfg p store fuel sched).trace.map zev
      = (run cfg { p with behave := b₂ } store fuel sched).trace.map zev ∧
    (run cfg p store fuel sched).store.map Prod.fst
      = (run cfg { p with behave := b₂ } store fuel sched).store.map Prod.fst ∧
    zst (run cfg p store fuel sched).status = zst (run cfg { p with behave := b₂ } store fuel sched).status ∧
    (run cfg p store fuel sched).marked = (run cfg { p with behave := b₂ } store fuel sched).marked := by
  have h := run_shape_eq cfg p b₂ store fuel sched obj H hcf hpat
  have hs : zl (run cfg p store fuel sched).store = zl (run cfg { p with behave := b₂ } store fuel sched).store :=
    congrArg RS.store h
  have hm : (zrs (run cfg p store fuel sched)).marked
      = (zrs (run cfg { p with behave := b₂ } store fuel sched)).marked := by rw [h]
  refine ⟨congrArg RS.trace h, ?_, congrArg RS.status h, hm⟩
  rw [← zl_keys, hs, zl_keys]

/-- the same, from a value-free condition on the two behaviours: whether `run()` succeeds depends
    only on which dependency reads succeed, identically for both -/
theorem context_noninterference_uniform (cfg : Config) (p : Problem)
    (b₂ : Tid → List (Option Val) → Option Val) (store : Store) (fuel : Nat) (sched : List Choice)
    (obj : Tid → Iid) (H : RefHypF p obj) (hcf : cfg.contOnFail = true)
    (hu : ∀ t vs ws, vs.map Option.isSome = ws.map Option.isSome →
      (p.behave t vs).isSome = (b₂ t ws).isSome) :
    (run cfg p store fuel sched).trace.map zev
      = (run cfg { p with behave := b₂ } store fuel sched).trace.map zev ∧
    (run cfg p store fuel sched).store.map Prod.fst
      = (run cfg { p with behave := b₂ } store fuel sched).store.map Prod.fst := by
  have hpat : ∀ t ∈ (plan cfg p store fuel).pending,
      (refEvalF cfg p store obj t).isSome = (refEvalF cfg { p with behave := b₂ } store obj t).isSome := by
    intro t ht
    obtain ⟨_, hti⟩ := planned_repr cfg p store fuel t ht
    have := same_pattern_of_uniform cfg p b₂ store obj H hu _ (repr0 (plan cfg p store fuel) t) (Nat.lt_succ_self _)
    rw [hti] at this
    exact this
  have h := context_noninterference_run cfg p b₂ store fuel sched obj H hcf hpat
  exact ⟨h.1, h.2.1⟩

/-- a second behaviour ("another context"): other values, always succeeds -/
def ctxB : Tid → List (Option Val) → Option Val := fun t vs => some (7 * t + vs.length)

/-- the hypothesis is needed: a behaviour with a different success pattern writes different keys -/
theorem success_pattern_needed :
    (run invExCfg invExP [] 4 (List.replicate 5 chooseAll)).store.map Prod.fst ≠
    (run invExCfg { invExP with behave := fun t vs => if t = 2 then none else invExP.behave t vs } [] 4
      (List.replicate 5 chooseAll)).store.map Prod.fst := by decide

/-- non-vacuity: the diamond under a second behaviour ("another context"): different values, same
    shape of the trace, same store keys -/
def shapeLit : List Ev :=
  [.submit 1 true, .start 1, .submit 0 false, .start 0, .waitEnter [] [1, 0], .load 1, .exec 0 [],
   .yield 1 (.ok 0), .remove [] [1], .yield 0 (.ok 0), .remove [] [0, 1], .submit 2 false, .start 2,
   .waitEnter [] [2], .exec 2 [some 0], .yield 2 (.ok 0), .remove [0] [2, 1], .submit 3 false, .start 3,
   .waitEnter [] [3], .exec 3 [some 0, some 0], .yield 3 (.ok 0), .remove [1, 2, 3] []]

example : (run invExCfg invExP [(1, 5)] 4 (List.replicate 4 chooseAll)).trace.map zev = shapeLit := by decide

example : (run invExCfg { invExP with behave := ctxB } [(1, 5)] 4 (List.replicate 4 chooseAll)).trace.map zev
    = shapeLit := by decide

example :
    (run invExCfg invExP [(1, 5)] 4 (List.replicate 4 chooseAll)).store = [(3, 5005), (2, 2000), (0, 0), (1, 5)] ∧
    (run invExCfg { invExP with behave := ctxB } [(1, 5)] 4 (List.replicate 4 chooseAll)).store
      = [(3, 23), (2, 15), (0, 0), (1, 5)] := by decide

/-- the hypotheses of `context_noninterference_uniform` are satisfiable (both behaviours always succeed) -/
example (be : Backend) (sched : List Choice) :
    (run { invExCfg with backend := be } invExP [] 4 sched).store.map Prod.fst
      = (run { invExCfg with backend := be } { invExP with behave := ctxB } [] 4 sched).store.map Prod.fst :=
  (context_noninterference_uniform { invExCfg with backend := be } invExP ctxB [] 4 sched id
    ⟨invExP_acyclic, by
      intro i j h
      simp only [invExP] at h ⊢
      by_cases h4 : i = 4 <;> by_cases h4' : j = 4 <;> simp_all <;> grind, by
      intro i
      simp only [invExP, id]
      split <;> simp_all⟩ rfl (by intro t vs ws _; rfl)).2

end Lt.Props.C16

