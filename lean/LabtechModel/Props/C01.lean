import LabtechModel.Props.C10
import LabtechModel.Proofs.InvRef
import LabtechModel.Proofs.OSet
/-!
# C01 — run_tasks returns exactly each requested task's own computed result

Proved here:
* `returned_keys_in_request_order`: the keys of the returned dict are a sub-sequence of the
  de-duplicated request list, in request order, each at most once;
* `returned_value_is_captured`: the value returned for a task is the one captured for that very task
  when it was yielded;
* `captured_is_own_outcome`: what is captured for `t` is the value of `t`'s own successful outcome;
* `outcome_is_behave_of_reads` / `outcome_is_stored_value`: a worker's outcome is `run()` applied to
  the reads of its own dependency objects, or the stored entry under its own key when loaded —
  no backend, limit or schedule appears in it;
* `reference_example`: on a concrete diamond DAG every backend and two different schedules return
  the value of the plain sequential evaluation.
Whole runs (from the master invariant and the value invariant `RefInv` of `Proofs/InvRef.lean`):
* `returns_reference_values`: for every problem in which no task raises or dies and `run()` is total
  (`RefHyp`: `Acyclic`, `InstOK`, a choice `obj` of one object per tid, `NoFail`, `BehaveTotal`), every
  configuration with positive limits, every *sound* cache pre-state (`StoreSound`: entries hold the
  reference value of their task), enough planning fuel and every fair schedule that is long enough,
  `run_tasks` returns exactly the requested tasks, de-duplicated in request order, each with
  `refEval` — the value of the plain sequential dependency-first evaluation. Backend, worker count,
  per-type limits, the schedule and the cache pre-state do not occur in the right-hand side;
* `reference_is_failure_aware_reference` + `returns_reference_values_from_C10`: the same theorem obtained
  as a corollary of C10's failure-aware `reference_when_nothing_fails` (under `NoFail`, `BehaveTotal`
  and a sound pre-state `refEvalF = refEval`), which shows that the generalisation to failing tasks
  and arbitrary cache pre-states is faithful;
* `every_yield_is_reference_value`: on the way, every task that is yielded at all is yielded with
  `ok (refEval t)` (also non-requested intermediate tasks, also loaded-from-cache ones).
-/
namespace Lt.Props.C01
open Lt

theorem dedup_sublist : ∀ (l : List Nat), (dedup l).Sublist l := by
  intro l
  induction l with
  | nil => simp [dedup]
  | cons a b ih =>
    simp only [dedup]
    exact (List.Sublist.trans (List.filter_sublist) ih).cons_cons a

theorem dedup_nodup : ∀ (l : List Nat), (dedup l).Nodup := by
  intro l
  induction l with
  | nil => simp [dedup]
  | cons a b ih =>
    simp only [dedup, List.nodup_cons, List.mem_filter]
    exact ⟨by simp, ih.filter _⟩

theorem returned_keys_in_request_order (req : List Tid) (rs : RS) (r : List (Tid × Val))
    (h : (finish req rs).status = .returned r) (hr : rs.status = .running) :
    (r.map (·.1)).Sublist (dedup req) ∧ (r.map (·.1)).Nodup := by
  simp only [finish, hr] at h
  split at h
  · simp [hr] at h
  · simp only [Status.returned.injEq] at h
    subst h
    have key : ∀ (l : List Tid), ((l.filterMap (fun t => (lookup t rs.taskResults).map (fun v => (t, v)))).map (·.1)).Sublist l := by
      intro l
      induction l with
      | nil => simp
      | cons a b ih =>
        simp only [List.filterMap_cons]
        cases lookup a rs.taskResults with
        | none => simpa using ih.cons a
        | some v => simpa using ih.cons_cons a
    exact ⟨key _, (key _).nodup (dedup_nodup req)⟩

theorem returned_value_is_captured (req : List Tid) (rs : RS) (r : List (Tid × Val))
    (h : (finish req rs).status = .returned r) (hr : rs.status = .running) :
    ∀ kv ∈ r, lookup kv.1 rs.taskResults = some kv.2 :=
  fun kv hkv => (Lt.Props.C10.returned_only_captured req rs r h hr kv hkv).2

theorem captured_is_own_outcome (cfg : Config) (req : List Tid) (rs : RS) (t : Tid) (o : Outcome) (x : Tid) (w : Val)
    (h : lookup x (processYield cfg req rs t o).taskResults = some w) :
    lookup x rs.taskResults = some w ∨ (x = t ∧ o = .ok w) := by
  cases o with
  | ok v =>
    simp only [processYield] at h
    have hT : ∀ (rs' : RS), rs'.taskResults = (if t ∈ req then (t, v) :: rs.taskResults.filter (fun kv => kv.1 ≠ t) else rs.taskResults) →
        lookup x rs'.taskResults = some w → lookup x rs.taskResults = some w ∨ (x = t ∧ Outcome.ok v = .ok w) := by
      intro rs' hrs hl
      rw [hrs] at hl
      split at hl
      · simp only [lookup] at hl
        split at hl
        · next htx => right; simp at hl; exact ⟨htx.symm, by rw [hl]⟩
        · next htx =>
          left
          have : ∀ (l : List (Tid × Val)), lookup x (l.filter (fun kv => kv.1 ≠ t)) = some w → lookup x l = some w := by
            intro l
            induction l with
            | nil => intro h0; simp [lookup] at h0
            | cons kv rest ih =>
              intro h0
              obtain ⟨k, u⟩ := kv
              simp only [List.filter_cons] at h0
              by_cases hk : k = t
              · subst hk
                simp only [ne_eq, not_true_eq_false, decide_false, Bool.false_eq_true, if_false] at h0
                simp only [lookup]
                have hkx : ¬ (k = x) := htx
                simp only [hkx, if_false]
                exact ih h0
              · simp only [ne_eq, hk, not_false_eq_true, decide_true, if_true, lookup] at h0 ⊢
                split at h0
                · next hkx => simp [hkx] at h0 ⊢; exact h0
                · next hkx => simp only [hkx, if_false]; exact ih h0
          exact this _ hl
      · left; exact hl
    split at h
    · exact hT _ rfl h
    · exact hT _ rfl h
  | exc =>
    left
    simp only [processYield] at h
    split at h <;> exact h
  | died =>
    left
    simp only [processYield] at h
    split at h <;> exact h

theorem outcome_is_behave_of_reads (p : Problem) (ts : TS) (store : Store) (j : Job)
    (hu : j.useCache = false) (hf : p.fails j.tid = false) :
    (∀ v, p.behave j.tid (reads p (repr0 ts j.tid) (j.snap.getD [])) = some v → runOutcome p ts store j = .ok v) ∧
    (p.behave j.tid (reads p (repr0 ts j.tid) (j.snap.getD [])) = none → runOutcome p ts store j = .exc) := by
  constructor
  · intro v hv; simp [runOutcome, hu, hf, hv]
  · intro hv; simp [runOutcome, hu, hf, hv]

theorem outcome_is_stored_value (p : Problem) (ts : TS) (store : Store) (j : Job) (v : Val)
    (hu : j.useCache = true) (hs : lookup j.tid store = some v) :
    runOutcome p ts store j = .ok v := by
  simp [runOutcome, hu, hs]

/-- diamond: 3 depends on 1 and 2, both depend on 0 -/
def exP : Problem where
  tidOf := fun i => i
  children := fun i => if i = 3 then [1, 2] else if i = 1 ∨ i = 2 then [0] else []
  requested := [3, 1]
  ty := fun t => t % 2
  maxPar := fun T => if T = 0 then some 1 else none
  cacheable := fun _ => true
  fails := fun _ => false
  dies := fun _ => false
  behave := fun t vs => some (1000 * t + (vs.map (fun o => o.getD 7)).foldl (· + ·) 0)

def all : Choice := ⟨fun _ => true⟩
def lastOnly : Choice := ⟨fun i => i == 1⟩
def firstOnly : Choice := ⟨fun i => i == 0⟩

theorem reference_example :
    ∀ be ∈ [Backend.serial, Backend.fork, Backend.spawn], ∀ mw ∈ [1, 2, 3],
      ∀ sched ∈ [[all, all, all, all, all], [lastOnly, firstOnly, lastOnly, all, firstOnly, all, all, all]],
        (run { backend := be, maxWorkers := mw, contOnFail := true, bust := false } exP [] 5 sched).status
          = .returned [(3, 6000), (1, 1000)] := by decide

/-! ## whole runs -/

/-- schedule-, backend-, limit- and cache-independence: the returned dict is the reference evaluation
    of the requested tasks -/
theorem returns_reference_values (cfg : Config) (p : Problem) (store : Store) (fuel : Nat) (sched : List Choice)
    (obj : Tid → Iid) (H : RefHyp p obj) (hS : StoreSound p obj store) (hF : FuelOK p fuel)
    (hL : LimitsPos cfg p) (hfair : Fair sched)
    (hlen : (plan cfg p store fuel).pending.length + 1 ≤ sched.length) :
    (run cfg p store fuel sched).status =
      .returned ((dedup (reqTids p)).filterMap (fun t => (refEval p obj t).map (fun v => (t, v)))) ∧
    ∀ t ∈ reqTids p, (refEval p obj t).isSome :=
  run_returns_ref cfg p store fuel sched obj H hS hF hL hfair hlen

/-- every outcome handed to the coordinator, at any point of any run, is the task's reference value -/
theorem every_yield_is_reference_value (cfg : Config) (p : Problem) (store : Store) (fuel : Nat)
    (sched : List Choice) (obj : Tid → Iid) (H : RefHyp p obj) (hS : StoreSound p obj store)
    (t : Tid) (o : Outcome) (h : Ev.yield t o ∈ (run cfg p store fuel sched).trace) :
    ∃ v, o = .ok v ∧ refEval p obj t = some v := by
  rw [run_trace] at h
  exact (runLoop_ref H sched _ (initRS_reach cfg p store fuel) (initRS_ref cfg p obj store fuel hS)).yOk t o h

/-- what `refEval` is: `run()` of the task applied to the reference values of the task objects in
    its parameters -/
theorem refEval_spec (p : Problem) (obj : Tid → Iid) (H : RefHyp p obj) (i : Iid) :
    refEval p obj (p.tidOf i) =
      p.behave (p.tidOf i) (((p.children (obj (p.tidOf i))).map p.tidOf).map (refEval p obj)) :=
  refEval_unfold p obj H.acyc H.objOK i

/-! non-vacuity: the hypotheses hold for the diamond with a duplicated object, for every backend,
    with a cold and with a warm (sound) cache, and the conclusion is the concrete dict -/
theorem invExP_refHyp : RefHyp invExP id where
  acyc := invExP_acyclic
  inst := by
    intro i j h
    simp only [invExP] at h ⊢
    by_cases h4 : i = 4 <;> by_cases h4' : j = 4 <;> simp_all <;> grind
  objOK := by
    intro i
    simp only [invExP, id]
    split <;> simp_all
  noFail := fun _ => ⟨rfl, rfl⟩
  total := by intro t vs _; simp [invExP]

theorem invExP_warm_sound : StoreSound invExP id [(1, 1000)] := by
  intro t v h
  simp only [lookup] at h
  split at h
  · next h1 => subst h1; simp only [Option.some.injEq] at h; subst h; decide
  · cases h

example : ∀ be ∈ [Backend.serial, Backend.fork, Backend.spawn], ∀ st ∈ [[], [(1, 1000)]],
    (run { invExCfg with backend := be } invExP st 4 (List.replicate 5 chooseFirst)).status
      = .returned [(3, 6000), (1, 1000)] ∧
    (dedup (reqTids invExP)).filterMap (fun t => (refEval invExP id t).map (fun v => (t, v)))
      = [(3, 6000), (1, 1000)] := by decide

example (be : Backend) :
    (run { invExCfg with backend := be } invExP [(1, 1000)] 4 (List.replicate 5 chooseFirst)).status =
      .returned ((dedup (reqTids invExP)).filterMap (fun t => (refEval invExP id t).map (fun v => (t, v)))) :=
  (returns_reference_values _ invExP [(1, 1000)] 4 _ id invExP_refHyp invExP_warm_sound invExP_fuel
    (invEx_limits be 2 (by decide)) (fair_replicate 5 chooseFirst rfl) (by cases be <;> decide)).1

/-! ## C01 as a corollary of the failure-aware theorem of C10 -/

/-- when nothing fails, `run()` is total and the cache pre-state is sound, the failure-aware
    reference evaluation of C10 is the plain one, for every task that has an object -/
theorem reference_is_failure_aware_reference (cfg : Config) (p : Problem) (store : Store) (obj : Tid → Iid)
    (H : RefHyp p obj) (hS : StoreSound p obj store) (i : Iid) :
    refEvalF cfg p store obj (p.tidOf i) = refEval p obj (p.tidOf i) ∧ (refEval p obj (p.tidOf i)).isSome :=
  ⟨refEvalF_eq_refEval cfg p store obj H hS _ i (Nat.lt_succ_self _),
   refEval_isSome p obj H _ i (Nat.lt_succ_self _)⟩

theorem returns_reference_values_from_C10 (cfg : Config) (p : Problem) (store : Store) (fuel : Nat) (sched : List Choice)
    (obj : Tid → Iid) (H : RefHyp p obj) (hS : StoreSound p obj store) (hF : FuelOK p fuel)
    (hL : LimitsPos cfg p) (hfair : Fair sched)
    (hlen : (plan cfg p store fuel).pending.length + 1 ≤ sched.length) :
    (run cfg p store fuel sched).status =
      .returned ((dedup (reqTids p)).filterMap (fun t => (refEval p obj t).map (fun v => (t, v)))) ∧
    ∀ t ∈ reqTids p, (refEval p obj t).isSome := by
  have hnf : ∀ t ∈ (plan cfg p store fuel).pending, (refEvalF cfg p store obj t).isSome := by
    intro t ht
    obtain ⟨_, hti⟩ := planned_repr cfg p store fuel t ht
    have := reference_is_failure_aware_reference cfg p store obj H hS (repr0 (plan cfg p store fuel) t)
    rw [hti] at this
    rw [this.1]; exact this.2
  have h1 := Lt.Props.C10.reference_when_nothing_fails cfg p store fuel sched obj
    ⟨H.acyc, H.inst, H.objOK⟩ hnf hF hL hfair hlen
  constructor
  · rw [h1]
    congr 1
    apply filterMap_congr'
    intro t ht
    obtain ⟨i, _, rfl⟩ := List.mem_map.mp ((mem_dedup _ _).mp ht)
    rw [(reference_is_failure_aware_reference cfg p store obj H hS i).1]
  · intro t ht
    obtain ⟨i, _, rfl⟩ := List.mem_map.mp ht
    exact (reference_is_failure_aware_reference cfg p store obj H hS i).2

end Lt.Props.C01

/-! ## `labtech.utils.OrderedSet`, the container behind "in request order, each at most once"

The run model (`Model/Run.lean`) writes `dedup` wherever the code builds an `OrderedSet` (`TaskState.pending_tasks`,
`get_direct_dependencies`, the sets `complete_task` returns). `Model/OSet.lean` models the class itself - a dict from
key object to stored object, elements with an equality class `cls` and an object identity `ident` - and the theorems
below say what it computes: (a) never two keys of one class, (b) `OrderedSet(items)` keeps the FIRST object of every
class in first-occurrence order, which on classes is exactly `dedup`, (c) membership = added and not removed since,
(d) `a + b` = `OrderedSet(list(a) + list(b))`, `len` = number of distinct classes, (e) `remove` raises exactly when the
class is absent, and a removed class that is added again goes to the end. The `OSET` driver word runs this model
against the real class on generated operation sequences (harness/osetrun.py). -/
namespace Lt.Props.C01
open Lt Lt.OSet

/-- (a) whatever sequence of constructor calls, `add`, successful `remove` and `+` produced a set, its key objects
    have pairwise different equality classes -/
theorem oset_keys_distinct (s : OSet) (h : Built s) : (s.toList.map Elem.cls).Nodup := built_wf h

/-- (a) the same for a sequence of `add` / `remove` calls (a `remove` that raises leaves the set unchanged) -/
theorem oset_keys_distinct_after_ops (s : OSet) (ops : List Op) (h : (s.toList.map Elem.cls).Nodup) :
    ((runOps s ops).toList.map Elem.cls).Nodup := wf_runOps ops s h

/-- (b) iterating `OrderedSet(items)` yields the first occurrence of every class, in order -/
theorem oset_ofList_first_occurrences (l : List Elem) : (ofList l).toList = firstOcc l := by
  rw [toList_ofList, foldl_kins_nil]

/-- (b) on equality classes that is the `dedup` of the run model -/
theorem oset_ofList_is_dedup (l : List Elem) : (ofList l).toList.map Elem.cls = dedup (l.map Elem.cls) := by
  rw [oset_ofList_first_occurrences, firstOcc_cls]

/-- (b) the object that comes out for a class is the FIRST object of that class in `items` -/
theorem oset_ofList_first_identity (l : List Elem) (c : Nat) :
    (ofList l).toList.find? (fun y => y.cls == c) = l.find? (fun y => y.cls == c) := by
  rw [oset_ofList_first_occurrences, firstOcc_find]

/-- (c) after a sequence of `add` / `remove` calls an object is `in` the set iff some `add` of its class is followed by
    no `remove` of its class, or it was in the set before and its class was never removed -/
theorem oset_mem_after_ops (s : OSet) (ops : List Op) (x : Elem) :
    (runOps s ops).mem x = true ↔
      (∃ pre e post, ops = pre ++ Op.add e :: post ∧ e.cls = x.cls ∧ NoRem x.cls post) ∨
      (s.mem x = true ∧ NoRem x.cls ops) := by
  rw [mem_runOps, live_iff]

/-- (c) membership is by class: in `OrderedSet(items)` iff an object of the class is in `items`; in `a + b` iff in
    `a` or in `b`; and `in` agrees with what iteration yields -/
theorem oset_mem_by_class (l : List Elem) (a b s : OSet) (x : Elem) :
    ((ofList l).mem x = true ↔ x.cls ∈ l.map Elem.cls) ∧
    ((a + b).mem x = (a.mem x || b.mem x)) ∧
    (s.mem x = true ↔ x.cls ∈ s.toList.map Elem.cls) :=
  ⟨by rw [mem_ofList, hasCls_iff], mem_plus a b x, by rw [mem, hasCls_iff]⟩

/-- (d) `a + b` iterates like `OrderedSet(list(a) + list(b))` -/
theorem oset_plus_is_ofList_concat (a b : OSet) : (a + b).toList = (ofList (a.toList ++ b.toList)).toList := by
  rw [toList_plus, toList_ofList]

/-- (d) for sets built through the interface: all of `a`'s key objects, then `b`'s key objects whose class is new -
    `a`'s object wins the identity of a shared class -/
theorem oset_plus_self_keys_first (a b : OSet) (ha : Built a) (hb : Built b) :
    (a + b).toList = a.toList ++ b.toList.filter (fun y => !a.mem y) :=
  toList_plus_wf a b (built_wf ha) (built_wf hb)

/-- (d) `len` = number of distinct classes -/
theorem oset_len_distinct_classes (l : List Elem) (a b : OSet) :
    (ofList l).len = (dedup (l.map Elem.cls)).length ∧
    (a + b).len = (dedup ((a.toList ++ b.toList).map Elem.cls)).length := by
  constructor
  · rw [len_eq, ← oset_ofList_is_dedup, List.length_map]
  · rw [len_eq, oset_plus_is_ofList_concat, ← oset_ofList_is_dedup, List.length_map]

/-- (e) `remove` raises `KeyError` exactly when no object of the class is in the set; otherwise the class is gone and the
    other keys keep their order -/
theorem oset_remove_fails_iff_absent (s : OSet) (e : Elem) :
    (s.remove e = none ↔ s.mem e = false) ∧
    (∀ s', s.remove e = some s' → s'.mem e = false ∧ s'.toList = s.toList.filter (fun y => y.cls ≠ e.cls)) := by
  refine ⟨remove_none_iff s e, fun s' hr => ⟨?_, toList_remove s s' e hr⟩⟩
  rw [mem_remove s s' e e hr]; simp

/-- (e) `add` of a present class changes nothing that iteration shows (the OLD object stays, at its position); `add` of
    an absent class appends; `remove` then `add` moves the class to the end, now with the new object -/
theorem oset_add_keeps_first_and_readd_moves_to_end (s : OSet) (e : Elem) :
    (s.mem e = true → (s.add e).toList = s.toList) ∧
    (s.mem e = false → (s.add e).toList = s.toList ++ [e]) ∧
    (∀ s', s.remove e = some s' → (s'.add e).toList = s.toList.filter (fun y => y.cls ≠ e.cls) ++ [e]) :=
  ⟨toList_add_present s e, toList_add_absent s e, fun s' hr => toList_remove_add s s' e hr⟩

/-! non-vacuity: `1`, `True`, `1.0` are class 1 with identities 10, 11, 12; two equal task objects are class 2 -/
example : (ofList [⟨1, 10⟩, ⟨2, 20⟩, ⟨1, 11⟩, ⟨2, 21⟩, ⟨3, 30⟩]).toList = [⟨1, 10⟩, ⟨2, 20⟩, ⟨3, 30⟩] := by decide

example : ((ofList [⟨1, 10⟩, ⟨2, 20⟩]).add ⟨1, 11⟩).toList = [⟨1, 10⟩, ⟨2, 20⟩] ∧
    ((ofList [⟨1, 10⟩, ⟨2, 20⟩]).add ⟨1, 11⟩).stored = [⟨1, 11⟩, ⟨2, 20⟩] := by decide

example : ((ofList [⟨1, 10⟩, ⟨2, 20⟩]).remove ⟨1, 12⟩).map (fun s => (s.add ⟨1, 11⟩).toList) = some [⟨2, 20⟩, ⟨1, 11⟩] ∧
    (ofList [⟨1, 10⟩, ⟨2, 20⟩]).remove ⟨3, 12⟩ = none := by decide

example : (ofList [⟨1, 10⟩, ⟨2, 20⟩] + ofList [⟨3, 30⟩, ⟨2, 21⟩, ⟨1, 11⟩, ⟨4, 40⟩]).toList
    = [⟨1, 10⟩, ⟨2, 20⟩, ⟨3, 30⟩, ⟨4, 40⟩] ∧
    (ofList [⟨1, 10⟩, ⟨2, 20⟩] + ofList [⟨3, 30⟩, ⟨2, 21⟩]).len = 3 := by decide

example : (runOps empty [.add ⟨1, 10⟩, .rem ⟨1, 11⟩, .rem ⟨1, 10⟩, .add ⟨2, 20⟩, .add ⟨1, 12⟩, .rem ⟨2, 21⟩]).toList = [⟨1, 12⟩] ∧
    (runOps empty [.add ⟨1, 10⟩, .rem ⟨1, 11⟩, .add ⟨2, 20⟩]).mem ⟨1, 10⟩ = false := by decide

example : Built ((ofList [⟨1, 10⟩, ⟨2, 20⟩]).add ⟨1, 11⟩ + ofList [⟨2, 21⟩]) :=
  .plus (.add _ (.ofList _)) (.ofList _)

end Lt.Props.C01
