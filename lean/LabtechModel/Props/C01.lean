import LabtechModel.Props.C10
/-!
# C01 — run_tasks returns exactly each requested task's own computed result

Proved here:
* `returned_keys_in_request_order`: the keys of the returned dict are a sub-sequence of the
  de-duplicated request list, in request order, each at most once;
* `returned_value_is_captured`: the value returned for a task is the one captured for that very task
  when it was yielded;
* `captured_is_own_outcome`: what is captured for `t` is the value of `t`'s own successful outcome;
* `outcome_is_behave_of_reads` / `outcome_is_stored_value`: a worker's outcome is `run()` applied to
  the reads of its own dependency objects, or the stored entry under its own key when loaded —
  no backend, limit or schedule appears in it;
* `reference_example`: on a concrete diamond DAG every backend and two different schedules return
  the value of the plain sequential evaluation.
The schedule-independence theorem for all DAGs (`run … = refEval`) needs the dependency invariant,
acyclicity and fairness; it is the goal stated in DESIGN.md section 7, C01.
-/
namespace Lt.Props.C01
open Lt

theorem dedup_sublist : ∀ (l : List Nat), (dedup l).Sublist l := by
  intro l
  induction l with
  | nil => simp [dedup]
  | cons a b ih =>
    simp only [dedup]
    exact (List.Sublist.trans (List.filter_sublist) ih).cons_cons a

theorem dedup_nodup : ∀ (l : List Nat), (dedup l).Nodup := by
  intro l
  induction l with
  | nil => simp [dedup]
  | cons a b ih =>
    simp only [dedup, List.nodup_cons, List.mem_filter]
    exact ⟨by simp, ih.filter _⟩

theorem returned_keys_in_request_order (req : List Tid) (rs : RS) (r : List (Tid × Val))
    (h : (finish req rs).status = .returned r) (hr : rs.status = .running) :
    (r.map (·.1)).Sublist (dedup req) ∧ (r.map (·.1)).Nodup := by
  simp only [finish, hr] at h
  split at h
  · simp [hr] at h
  · simp only [Status.returned.injEq] at h
    subst h
    have key : ∀ (l : List Tid), ((l.filterMap (fun t => (lookup t rs.taskResults).map (fun v => (t, v)))).map (·.1)).Sublist l := by
      intro l
      induction l with
      | nil => simp
      | cons a b ih =>
        simp only [List.filterMap_cons]
        cases lookup a rs.taskResults with
        | none => simpa using ih.cons a
        | some v => simpa using ih.cons_cons a
    exact ⟨key _, (key _).nodup (dedup_nodup req)⟩

theorem returned_value_is_captured (req : List Tid) (rs : RS) (r : List (Tid × Val))
    (h : (finish req rs).status = .returned r) (hr : rs.status = .running) :
    ∀ kv ∈ r, lookup kv.1 rs.taskResults = some kv.2 :=
  fun kv hkv => (Lt.Props.C10.returned_only_captured req rs r h hr kv hkv).2

theorem captured_is_own_outcome (cfg : Config) (req : List Tid) (rs : RS) (t : Tid) (o : Outcome) (x : Tid) (w : Val)
    (h : lookup x (processYield cfg req rs t o).taskResults = some w) :
    lookup x rs.taskResults = some w ∨ (x = t ∧ o = .ok w) := by
  cases o with
  | ok v =>
    simp only [processYield] at h
    have hT : ∀ (rs' : RS), rs'.taskResults = (if t ∈ req then (t, v) :: rs.taskResults.filter (fun kv => kv.1 ≠ t) else rs.taskResults) →
        lookup x rs'.taskResults = some w → lookup x rs.taskResults = some w ∨ (x = t ∧ Outcome.ok v = .ok w) := by
      intro rs' hrs hl
      rw [hrs] at hl
      split at hl
      · simp only [lookup] at hl
        split at hl
        · next htx => right; simp at hl; exact ⟨htx.symm, by rw [hl]⟩
        · next htx =>
          left
          have : ∀ (l : List (Tid × Val)), lookup x (l.filter (fun kv => kv.1 ≠ t)) = some w → lookup x l = some w := by
            intro l
            induction l with
            | nil => intro h0; simp [lookup] at h0
            | cons kv rest ih =>
              intro h0
              obtain ⟨k, u⟩ := kv
              simp only [List.filter_cons] at h0
              by_cases hk : k = t
              · subst hk
                simp only [ne_eq, not_true_eq_false, decide_false, Bool.false_eq_true, if_false] at h0
                simp only [lookup]
                have hkx : ¬ (k = x) := htx
                simp only [hkx, if_false]
                exact ih h0
              · simp only [ne_eq, hk, not_false_eq_true, decide_true, if_true, lookup] at h0 ⊢
                split at h0
                · next hkx => simp [hkx] at h0 ⊢; exact h0
                · next hkx => simp only [hkx, if_false]; exact ih h0
          exact this _ hl
      · left; exact hl
    split at h
    · exact hT _ rfl h
    · exact hT _ rfl h
  | exc =>
    left
    simp only [processYield] at h
    split at h <;> exact h
  | died =>
    left
    simp only [processYield] at h
    split at h <;> exact h

theorem outcome_is_behave_of_reads (p : Problem) (ts : TS) (store : Store) (j : Job)
    (hu : j.useCache = false) (hf : p.fails j.tid = false) :
    (∀ v, p.behave j.tid (reads p (repr0 ts j.tid) (j.snap.getD [])) = some v → runOutcome p ts store j = .ok v) ∧
    (p.behave j.tid (reads p (repr0 ts j.tid) (j.snap.getD [])) = none → runOutcome p ts store j = .exc) := by
  constructor
  · intro v hv; simp [runOutcome, hu, hf, hv]
  · intro hv; simp [runOutcome, hu, hf, hv]

theorem outcome_is_stored_value (p : Problem) (ts : TS) (store : Store) (j : Job) (v : Val)
    (hu : j.useCache = true) (hs : lookup j.tid store = some v) :
    runOutcome p ts store j = .ok v := by
  simp [runOutcome, hu, hs]

/-- diamond: 3 depends on 1 and 2, both depend on 0 -/
def exP : Problem where
  tidOf := fun i => i
  children := fun i => if i = 3 then [1, 2] else if i = 1 ∨ i = 2 then [0] else []
  requested := [3, 1]
  ty := fun t => t % 2
  maxPar := fun T => if T = 0 then some 1 else none
  cacheable := fun _ => true
  fails := fun _ => false
  dies := fun _ => false
  behave := fun t vs => some (1000 * t + (vs.map (fun o => o.getD 7)).foldl (· + ·) 0)

def all : Choice := ⟨fun _ => true⟩
def lastOnly : Choice := ⟨fun i => i == 1⟩
def firstOnly : Choice := ⟨fun i => i == 0⟩

theorem reference_example :
    ∀ be ∈ [Backend.serial, Backend.fork, Backend.spawn], ∀ mw ∈ [1, 2, 3],
      ∀ sched ∈ [[all, all, all, all, all], [lastOnly, firstOnly, lastOnly, all, firstOnly, all, all, all]],
        (run { backend := be, maxWorkers := mw, contOnFail := true, bust := false } exP [] 5 sched).status
          = .returned [(3, 6000), (1, 1000)] := by decide

end Lt.Props.C01
