import LabtechModel.Proofs.Submit
import LabtechModel.Proofs.Plan
import LabtechModel.Proofs.InvMain
import LabtechModel.Proofs.Inv2Count
/-!
# C05 — Runnable work is started whenever capacity is free

Proved here: the submit phase starts *every* task `get_ready_tasks` lists, in that order, before the
coordinator waits (`submit_phase_starts_all_ready`); `get_ready_tasks` skips a dependency-free task
only when its type is at its limit (`not_ready_means_blocked`); the executor never leaves a worker
slot idle while a future is queued, after `submit` and after every `wait`
(`no_idle_worker_after_submit`, `no_idle_worker_after_wait`); the serial runner executes a task in
every `wait` in which something is submitted (`serial_wait_executes_head`).

Whole runs (every problem, configuration, cache pre-state, fuel and schedule; no hypothesis; from
the master invariant of `Proofs/InvLoop.lean`):
* `submit_phase_exhausts_ready`: at every reachable loop head, after the submit phase
  `get_ready_tasks` returns nothing: every still pending task has an unfinished dependency or its
  type is at its `max_parallel` limit (`resting_point_blocked`), i.e. the coordinator only waits when
  nothing more can be started;
* `no_idle_worker_at_rest`: for process runners, at every resting point (after the submit phase of
  every reachable loop head) no worker slot is idle while a future is queued.
* `executing_equals_min_at_rest`: the counting equation. At every resting point of a running
  coordinator, process backends: `#running = min max_workers #active` and `#queued = #active - #running`;
  serial backend: no worker, the deque holds exactly the active tasks and the `wait` that follows
  starts exactly `min 1 #active` tasks (`serial_wait_executes_one_iff`: one iff something is active);
* `active_is_maximal`: at every resting point the active set is admissible (all dependencies
  finished, no type above its `max_parallel`) and maximal: adding any single pending task breaks
  admissibility. So "executing = min(max_workers, runnable tasks the per-type limits allow)" holds
  with "runnable the limits allow" = the maximal admissible set `get_ready_tasks` builds greedily in
  `pending_tasks` order (`Admissible_spec` spells the predicate out).
-/
namespace Lt.Props.C05
open Lt

theorem submit_phase_starts_all_ready (cfg : Config) (p : Problem) (rs : RS) (h : rs.ts.pending.Nodup) :
    (submitAll cfg p (readyTasks p rs.ts) rs).ts.active = rs.ts.active ++ readyTasks p rs.ts ∧
    (submitAll cfg p (readyTasks p rs.ts) rs).ts.pending = rs.ts.pending.filter (· ∉ readyTasks p rs.ts) ∧
    (submitAll cfg p (readyTasks p rs.ts) rs).status = rs.status := by
  have hnd : (readyTasks p rs.ts).Nodup := (readyAux_sublist p rs.ts rs.ts.pending _).nodup h
  have := submitAll_all cfg p (readyTasks p rs.ts) rs hnd (fun t ht => (readyTasks_no_pending_deps p rs.ts t ht).2)
  rw [this.1]
  exact ⟨rfl, rfl, this.2⟩

/-- a pending task that `get_ready_tasks` does not return is blocked by a pending dependency or by
    its type's `max_parallel` (counting the active tasks and the ones picked before it) -/
theorem not_ready_means_blocked (p : Problem) (s : TS) :
    ∀ (l : List Tid) (c : Nat → Nat) (t : Tid), t ∈ l → t ∉ readyAux p s l c →
      s.pendDeps t ≠ [] ∨ ∃ L, p.maxPar (p.ty t) = some L ∧
        L ≤ c (p.ty t) + typeCount p (readyAux p s l c) (p.ty t) := by
  intro l
  induction l with
  | nil => intro c t h; simp at h
  | cons x rest ih =>
    intro c t hmem hnot
    simp only [readyAux] at hnot ⊢
    by_cases hpd : (s.pendDeps x).length > 0
    · simp only [hpd, if_true] at hnot ⊢
      rcases List.mem_cons.mp hmem with h1 | h1
      · subst h1; left; intro h0; simp [h0] at hpd
      · exact ih c t h1 hnot
    · simp only [hpd, if_false] at hnot ⊢
      cases hm : p.maxPar (p.ty x) with
      | none =>
        simp only [hm] at hnot ⊢
        rcases List.mem_cons.mp hmem with h1 | h1
        · subst h1; simp at hnot
        · have hnot' : t ∉ readyAux p s rest (bump c (p.ty x)) := fun h => hnot (List.mem_cons_of_mem _ h)
          rcases ih _ t h1 hnot' with h2 | ⟨L, hL, hle⟩
          · left; exact h2
          · right; refine ⟨L, hL, ?_⟩
            simp only [typeCount, List.filter_cons, bump] at hle ⊢
            split at hle <;> split <;> simp_all <;> omega
      | some Lx =>
        simp only [hm] at hnot ⊢
        by_cases hc : c (p.ty x) ≥ Lx
        · simp only [hc, if_true] at hnot ⊢
          rcases List.mem_cons.mp hmem with h1 | h1
          · subst h1; right; exact ⟨Lx, hm, by omega⟩
          · exact ih c t h1 hnot
        · simp only [hc, if_false] at hnot ⊢
          rcases List.mem_cons.mp hmem with h1 | h1
          · subst h1; simp at hnot
          · have hnot' : t ∉ readyAux p s rest (bump c (p.ty x)) := fun h => hnot (List.mem_cons_of_mem _ h)
            rcases ih _ t h1 hnot' with h2 | ⟨L, hL, hle⟩
            · left; exact h2
            · right; refine ⟨L, hL, ?_⟩
              simp only [typeCount, List.filter_cons, bump] at hle ⊢
              split at hle <;> split <;> simp_all <;> omega

/-- executor: after a submit no worker slot is idle while a future is queued -/
theorem no_idle_worker_after_submit (cfg : Config) (p : Problem) (rs : RS) (t : Tid)
    (hb : cfg.backend ≠ .serial) (h : rs.running.length ≤ cfg.maxWorkers) :
    (submitTask cfg p rs t).queued = [] ∨ (submitTask cfg p rs t).running.length = cfg.maxWorkers := by
  simp only [submitTask, hb, if_false]
  exact startProcesses_no_idle cfg _ (by simpa using h)

/-- executor: after a wait (results consumed, dead processes dropped, `_start_processes` called) no
    worker slot is idle while a future is queued -/
theorem no_idle_worker_after_wait (cfg : Config) (p : Problem) (req : List Tid) (c : Choice) (rs : RS)
    (h : rs.running.length ≤ cfg.maxWorkers) :
    (waitProcess cfg p req c rs).queued = [] ∨ (waitProcess cfg p req c rs).running.length = cfg.maxWorkers := by
  simp only [waitProcess]
  rw [processYields_queued, processYields_running]
  apply startProcesses_no_idle
  simp only [List.length_map]
  have := filter_enum_length_le rs.running (fun ij => !c.finish ij.1) 0
  omega

/-- the serial runner executes the head of the deque in every wait with a non-empty deque -/
theorem serial_wait_executes_head (cfg : Config) (p : Problem) (req : List Tid) (rs : RS) (j : Job) (rest : List Job)
    (h : rs.queued = j :: rest) :
    Ev.start j.tid ∈ (waitSerial cfg p req rs).trace := by
  have key : ∀ (rs' : RS) (t : Tid) (o : Outcome) (e : Ev), e ∈ rs'.trace → e ∈ (processYield cfg req rs' t o).trace := by
    intro rs' t o e he
    simp only [processYield]
    cases o <;> (simp only; split <;> (try split) <;> simp [he])
  simp only [waitSerial, h]
  apply key
  simp

def exP : Problem where
  tidOf := fun i => i
  children := fun _ => []
  requested := [0, 1, 2]
  ty := fun _ => 0
  maxPar := fun _ => some 2
  cacheable := fun _ => false
  fails := fun _ => false
  dies := fun _ => false
  behave := fun t _ => some t
def exCfg : Config := { backend := .fork, maxWorkers := 4, contOnFail := true, bust := false }

example : readyTasks exP (plan exCfg exP [] 4) = [0, 1] ∧ 2 ∉ readyTasks exP (plan exCfg exP [] 4) := by decide

/-! ## whole runs -/

/-- at every reachable loop head the submit phase leaves nothing that `get_ready_tasks` would offer -/
theorem submit_phase_exhausts_ready (cfg : Config) (p : Problem) (store : Store) (fuel : Nat) (sched : List Choice) :
    let rs := runLoop cfg p (reqTids p) sched (initRS cfg p store fuel)
    readyTasks p (submitAll cfg p (readyTasks p rs.ts) rs).ts = [] :=
  loopHead_exhausts cfg p store fuel sched

/-- at every resting point each pending task is blocked: by an unfinished direct dependency (a
    planned dependency that has not been yielded) or by its type's `max_parallel` -/
theorem resting_point_blocked (cfg : Config) (p : Problem) (store : Store) (fuel : Nat) (sched : List Choice) :
    let rs := runLoop cfg p (reqTids p) sched (initRS cfg p store fuel)
    let rs' := submitAll cfg p (readyTasks p rs.ts) rs
    rs.status = .running → ∀ t ∈ rs'.ts.pending,
      (∃ d ∈ (plan cfg p store fuel).ddeps t, d ∉ yielded rs') ∨
      ∃ L, p.maxPar (p.ty t) = some L ∧ L ≤ typeCount p rs'.ts.active (p.ty t) := by
  intro rs rs' hrun t ht
  have hex : readyTasks p rs'.ts = [] := loopHead_exhausts cfg p store fuel sched
  obtain ⟨hc, _, _⟩ := submitPhase_reach (plan_PI cfg p store fuel) (reach_all cfg p store fuel sched) hrun
  have hnot : t ∉ readyAux p rs'.ts rs'.ts.pending (typeCount p rs'.ts.active) := by
    have := hex; simp only [readyTasks] at this; rw [this]; simp
  rcases not_ready_means_blocked p rs'.ts rs'.ts.pending _ t ht hnot with h | ⟨L, hL, hle⟩
  · left
    obtain ⟨d, hd⟩ := List.exists_mem_of_ne_nil _ h
    exact ⟨d, (hc.ts.mem_pd t d).mp hd⟩
  · right
    refine ⟨L, hL, ?_⟩
    have := hex; simp only [readyTasks] at this
    rw [this] at hle
    simpa [typeCount] using hle

/-- process runners: at every resting point no worker slot is idle while a future is queued -/
theorem no_idle_worker_at_rest (cfg : Config) (p : Problem) (store : Store) (fuel : Nat) (sched : List Choice)
    (hb : cfg.backend ≠ .serial) :
    let rs := runLoop cfg p (reqTids p) sched (initRS cfg p store fuel)
    let rs' := submitAll cfg p (readyTasks p rs.ts) rs
    rs'.queued = [] ∨ rs'.running.length = cfg.maxWorkers := by
  have hl := loopHead_live cfg p store fuel sched
  exact submitAll_noIdle cfg p hb _ _ hl.workers (hl.noIdle hb)

/-- non-vacuity: diamond with `max_parallel = 1` for the even tids, two workers: at the second loop
    head tasks 1 and 2 become ready together and both are started; nothing is left ready -/
example :
    let rs := runLoop invExCfg invExP (reqTids invExP) [chooseAll] (initRS invExCfg invExP [] 4)
    rs.status = .running ∧ readyTasks invExP rs.ts = [1, 2] ∧
    (submitAll invExCfg invExP (readyTasks invExP rs.ts) rs).ts.pending = [3] ∧
    (submitAll invExCfg invExP (readyTasks invExP rs.ts) rs).running.map Job.tid = [1, 2] := by decide

/-! ## the counting equation -/

/-- reading of `startedOf`: the tids of the `start` events, in order -/
theorem startedOf_spec (tr : List Ev) (t : Tid) : t ∈ startedOf tr ↔ Ev.start t ∈ tr := by
  simp only [startedOf, List.mem_filterMap]
  constructor
  · rintro ⟨e, he, h⟩
    cases e <;> simp [evStartTid] at h
    subst h; exact he
  · intro h; exact ⟨_, h, rfl⟩

/-- at every resting point of a running coordinator: executing = min(max_workers, active) for
    process backends (the other active tasks are queued in the executor); for the serial backend
    nothing executes outside `wait`, and the `wait` that follows executes `min 1 #active` tasks -/
theorem executing_equals_min_at_rest (cfg : Config) (p : Problem) (store : Store) (fuel : Nat) (sched : List Choice) :
    let rs := runLoop cfg p (reqTids p) sched (initRS cfg p store fuel)
    let rs' := submitAll cfg p (readyTasks p rs.ts) rs
    rs.status = .running →
    (cfg.backend ≠ .serial →
      rs'.running.length = min cfg.maxWorkers rs'.ts.active.length ∧
      rs'.queued.length = rs'.ts.active.length - rs'.running.length) ∧
    (cfg.backend = .serial →
      rs'.running = [] ∧ rs'.queued.length = rs'.ts.active.length ∧
      (startedOf (waitSerial cfg p (reqTids p) rs').trace).length
        = (startedOf rs'.trace).length + min 1 rs'.ts.active.length) := by
  intro rs rs' hrun
  refine ⟨fun hb => rest_count_process cfg p store fuel sched hb hrun, fun hb => ?_⟩
  obtain ⟨h1, h2⟩ := rest_count_serial cfg p store fuel sched hb hrun
  refine ⟨h1, h2, ?_⟩
  rw [waitSerial_started, List.length_append, List.length_map, List.length_take]
  show _ = _ + min 1 (restState cfg p store fuel sched).ts.active.length
  rw [← h2]

/-- serial backend: the `wait` at a resting point starts exactly one task iff something is active,
    and nothing otherwise -/
theorem serial_wait_executes_one_iff (cfg : Config) (p : Problem) (store : Store) (fuel : Nat) (sched : List Choice)
    (hb : cfg.backend = .serial) :
    let rs := runLoop cfg p (reqTids p) sched (initRS cfg p store fuel)
    let rs' := submitAll cfg p (readyTasks p rs.ts) rs
    rs.status = .running →
    ((∃ t, startedOf (waitSerial cfg p (reqTids p) rs').trace = startedOf rs'.trace ++ [t]) ↔
      rs'.ts.active ≠ []) ∧
    (rs'.ts.active = [] → startedOf (waitSerial cfg p (reqTids p) rs').trace = startedOf rs'.trace) := by
  intro rs rs' hrun
  obtain ⟨_, h2⟩ := rest_count_serial cfg p store fuel sched hb hrun
  have h2' : rs'.queued.length = rs'.ts.active.length := h2
  rw [waitSerial_started]
  cases hq : rs'.queued with
  | nil =>
    have ha : rs'.ts.active = [] := by
      rw [hq] at h2'
      exact List.eq_nil_of_length_eq_zero h2'.symm
    refine ⟨⟨?_, fun h => absurd ha h⟩, fun _ => by simp⟩
    rintro ⟨t, ht⟩
    have := congrArg List.length ht
    simp at this
  | cons j rest =>
    have ha : rs'.ts.active ≠ [] := by
      intro h0
      rw [hq, h0] at h2'
      simp at h2'
    exact ⟨⟨fun _ => ha, fun _ => ⟨j.tid, by simp⟩⟩, fun h0 => absurd h0 ha⟩

/-- reading of `Admissible`: the tasks may be in flight together — every direct dependency of each
    of them has been delivered, and no type has more members than its `max_parallel` -/
theorem Admissible_spec (p : Problem) (P : TS) (Y A : List Tid) :
    Admissible p P Y A ↔
      ((∀ t ∈ A, ∀ d ∈ P.ddeps t, d ∈ Y) ∧
       ∀ T L, p.maxPar T = some L → (A.filter (fun t => p.ty t = T)).length ≤ L) := Iff.rfl

/-- at every resting point the active set is a maximal admissible set: it is admissible, and adding
    any single pending task makes it inadmissible (unfinished dependency, or type limit exceeded) -/
theorem active_is_maximal (cfg : Config) (p : Problem) (store : Store) (fuel : Nat) (sched : List Choice) :
    let rs := runLoop cfg p (reqTids p) sched (initRS cfg p store fuel)
    let rs' := submitAll cfg p (readyTasks p rs.ts) rs
    rs.status = .running →
    Admissible p (plan cfg p store fuel) (yielded rs') rs'.ts.active ∧
    ∀ t ∈ rs'.ts.pending, ¬ Admissible p (plan cfg p store fuel) (yielded rs') (rs'.ts.active ++ [t]) := by
  intro rs rs' hrun
  obtain ⟨hc, _, _⟩ := submitPhase_reach (plan_PI cfg p store fuel) (reach_all cfg p store fuel sched) hrun
  refine ⟨⟨hc.ts.actDeps, submitAll_limit cfg p _ (loopHead_limit cfg p store fuel sched)⟩, ?_⟩
  intro t ht hadm
  rcases resting_point_blocked cfg p store fuel sched hrun t ht with ⟨d, hd, hdy⟩ | ⟨L, hL, hle⟩
  · exact hdy (hadm.1 t (by simp) d hd)
  · have h0 := hadm.2 _ L hL
    rw [typeCount_append] at h0
    have h1 : typeCount p [t] (p.ty t) = 1 := by simp [typeCount]
    have hle' : L ≤ typeCount p rs'.ts.active (p.ty t) := hle
    omega

/-- non-vacuity: three independent tasks of one type with `max_parallel = 2`, one worker: at the first
    resting point two tasks are active (the limit), one executes (`min 1 2`), one is queued; with
    the serial runner the wait starts exactly one task; the third task cannot be added -/
example :
    let cfg1 : Config := { exCfg with maxWorkers := 1 }
    let rs' := submitAll cfg1 exP (readyTasks exP (initRS cfg1 exP [] 4).ts) (initRS cfg1 exP [] 4)
    rs'.ts.active = [0, 1] ∧ rs'.running.map Job.tid = [0] ∧ rs'.queued.map Job.tid = [1] ∧
    rs'.running.length = min cfg1.maxWorkers rs'.ts.active.length ∧ rs'.ts.pending = [2] ∧
    typeCount exP (rs'.ts.active ++ [2]) 0 = 3 := by decide

example :
    let cfgS : Config := { exCfg with backend := .serial }
    let rs' := submitAll cfgS exP (readyTasks exP (initRS cfgS exP [] 4).ts) (initRS cfgS exP [] 4)
    rs'.queued.map Job.tid = [0, 1] ∧ startedOf rs'.trace = [] ∧
    startedOf (waitSerial cfgS exP (reqTids exP) rs').trace = [0] := by decide

end Lt.Props.C05
