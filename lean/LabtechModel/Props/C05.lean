import LabtechModel.Proofs.Submit
import LabtechModel.Proofs.Plan
import LabtechModel.Proofs.InvMain
/-!
# C05 — Runnable work is started whenever capacity is free

Proved here: the submit phase starts *every* task `get_ready_tasks` lists, in that order, before the
coordinator waits (`submit_phase_starts_all_ready`); `get_ready_tasks` skips a dependency-free task
only when its type is at its limit (`not_ready_means_blocked`); the executor never leaves a worker
slot idle while a future is queued, after `submit` and after every `wait`
(`no_idle_worker_after_submit`, `no_idle_worker_after_wait`); the serial runner executes a task in
every `wait` in which something is submitted (`serial_wait_executes_head`).

Whole runs (every problem, configuration, cache pre-state, fuel and schedule; no hypothesis; from
the master invariant of `Proofs/InvLoop.lean`):
* `submit_phase_exhausts_ready`: at every reachable loop head, after the submit phase
  `get_ready_tasks` returns nothing: every still pending task has an unfinished dependency or its
  type is at its `max_parallel` limit (`resting_point_blocked`), i.e. the coordinator only waits when
  nothing more can be started;
* `no_idle_worker_at_rest`: for process runners, at every resting point (after the submit phase of
  every reachable loop head) no worker slot is idle while a future is queued.
-/
namespace Lt.Props.C05
open Lt

theorem submit_phase_starts_all_ready (cfg : Config) (p : Problem) (rs : RS) (h : rs.ts.pending.Nodup) :
    (submitAll cfg p (readyTasks p rs.ts) rs).ts.active = rs.ts.active ++ readyTasks p rs.ts ∧
    (submitAll cfg p (readyTasks p rs.ts) rs).ts.pending = rs.ts.pending.filter (· ∉ readyTasks p rs.ts) ∧
    (submitAll cfg p (readyTasks p rs.ts) rs).status = rs.status := by
  have hnd : (readyTasks p rs.ts).Nodup := (readyAux_sublist p rs.ts rs.ts.pending _).nodup h
  have := submitAll_all cfg p (readyTasks p rs.ts) rs hnd (fun t ht => (readyTasks_no_pending_deps p rs.ts t ht).2)
  rw [this.1]
  exact ⟨rfl, rfl, this.2⟩

/-- a pending task that `get_ready_tasks` does not return is blocked by a pending dependency or by
    its type's `max_parallel` (counting the active tasks and the ones picked before it) -/
theorem not_ready_means_blocked (p : Problem) (s : TS) :
    ∀ (l : List Tid) (c : Nat → Nat) (t : Tid), t ∈ l → t ∉ readyAux p s l c →
      s.pendDeps t ≠ [] ∨ ∃ L, p.maxPar (p.ty t) = some L ∧
        L ≤ c (p.ty t) + typeCount p (readyAux p s l c) (p.ty t) := by
  intro l
  induction l with
  | nil => intro c t h; simp at h
  | cons x rest ih =>
    intro c t hmem hnot
    simp only [readyAux] at hnot ⊢
    by_cases hpd : (s.pendDeps x).length > 0
    · simp only [hpd, if_true] at hnot ⊢
      rcases List.mem_cons.mp hmem with h1 | h1
      · subst h1; left; intro h0; simp [h0] at hpd
      · exact ih c t h1 hnot
    · simp only [hpd, if_false] at hnot ⊢
      cases hm : p.maxPar (p.ty x) with
      | none =>
        simp only [hm] at hnot ⊢
        rcases List.mem_cons.mp hmem with h1 | h1
        · subst h1; simp at hnot
        · have hnot' : t ∉ readyAux p s rest (bump c (p.ty x)) := fun h => hnot (List.mem_cons_of_mem _ h)
          rcases ih _ t h1 hnot' with h2 | ⟨L, hL, hle⟩
          · left; exact h2
          · right; refine ⟨L, hL, ?_⟩
            simp only [typeCount, List.filter_cons, bump] at hle ⊢
            split at hle <;> split <;> simp_all <;> omega
      | some Lx =>
        simp only [hm] at hnot ⊢
        by_cases hc : c (p.ty x) ≥ Lx
        · simp only [hc, if_true] at hnot ⊢
          rcases List.mem_cons.mp hmem with h1 | h1
          · subst h1; right; exact ⟨Lx, hm, by omega⟩
          · exact ih c t h1 hnot
        · simp only [hc, if_false] at hnot ⊢
          rcases List.mem_cons.mp hmem with h1 | h1
          · subst h1; simp at hnot
          · have hnot' : t ∉ readyAux p s rest (bump c (p.ty x)) := fun h => hnot (List.mem_cons_of_mem _ h)
            rcases ih _ t h1 hnot' with h2 | ⟨L, hL, hle⟩
            · left; exact h2
            · right; refine ⟨L, hL, ?_⟩
              simp only [typeCount, List.filter_cons, bump] at hle ⊢
              split at hle <;> split <;> simp_all <;> omega

/-- executor: after a submit no worker slot is idle while a future is queued -/
theorem no_idle_worker_after_submit (cfg : Config) (p : Problem) (rs : RS) (t : Tid)
    (hb : cfg.backend ≠ .serial) (h : rs.running.length ≤ cfg.maxWorkers) :
    (submitTask cfg p rs t).queued = [] ∨ (submitTask cfg p rs t).running.length = cfg.maxWorkers := by
  simp only [submitTask, hb, if_false]
  exact startProcesses_no_idle cfg _ (by simpa using h)

/-- executor: after a wait (results consumed, dead processes dropped, `_start_processes` called) no
    worker slot is idle while a future is queued -/
theorem no_idle_worker_after_wait (cfg : Config) (p : Problem) (req : List Tid) (c : Choice) (rs : RS)
    (h : rs.running.length ≤ cfg.maxWorkers) :
    (waitProcess cfg p req c rs).queued = [] ∨ (waitProcess cfg p req c rs).running.length = cfg.maxWorkers := by
  simp only [waitProcess]
  rw [processYields_queued, processYields_running]
  apply startProcesses_no_idle
  simp only [List.length_map]
  have := filter_enum_length_le rs.running (fun ij => !c.finish ij.1) 0
  omega

/-- the serial runner executes the head of the deque in every wait with a non-empty deque -/
theorem serial_wait_executes_head (cfg : Config) (p : Problem) (req : List Tid) (rs : RS) (j : Job) (rest : List Job)
    (h : rs.queued = j :: rest) :
    Ev.start j.tid ∈ (waitSerial cfg p req rs).trace := by
  have key : ∀ (rs' : RS) (t : Tid) (o : Outcome) (e : Ev), e ∈ rs'.trace → e ∈ (processYield cfg req rs' t o).trace := by
    intro rs' t o e he
    simp only [processYield]
    cases o <;> (simp only; split <;> (try split) <;> simp [he])
  simp only [waitSerial, h]
  apply key
  simp

def exP : Problem where
  tidOf := fun i => i
  children := fun _ => []
  requested := [0, 1, 2]
  ty := fun _ => 0
  maxPar := fun _ => some 2
  cacheable := fun _ => false
  fails := fun _ => false
  dies := fun _ => false
  behave := fun t _ => some t
def exCfg : Config := { backend := .fork, maxWorkers := 4, contOnFail := true, bust := false }

example : readyTasks exP (plan exCfg exP [] 4) = [0, 1] ∧ 2 ∉ readyTasks exP (plan exCfg exP [] 4) := by decide

/-! ## whole runs -/

/-- at every reachable loop head the submit phase leaves nothing that `get_ready_tasks` would offer -/
theorem submit_phase_exhausts_ready (cfg : Config) (p : Problem) (store : Store) (fuel : Nat) (sched : List Choice) :
    let rs := runLoop cfg p (reqTids p) sched (initRS cfg p store fuel)
    readyTasks p (submitAll cfg p (readyTasks p rs.ts) rs).ts = [] :=
  loopHead_exhausts cfg p store fuel sched

/-- at every resting point each pending task is blocked: by an unfinished direct dependency (a
    planned dependency that has not been yielded) or by its type's `max_parallel` -/
theorem resting_point_blocked (cfg : Config) (p : Problem) (store : Store) (fuel : Nat) (sched : List Choice) :
    let rs := runLoop cfg p (reqTids p) sched (initRS cfg p store fuel)
    let rs' := submitAll cfg p (readyTasks p rs.ts) rs
    rs.status = .running → ∀ t ∈ rs'.ts.pending,
      (∃ d ∈ (plan cfg p store fuel).ddeps t, d ∉ yielded rs') ∨
      ∃ L, p.maxPar (p.ty t) = some L ∧ L ≤ typeCount p rs'.ts.active (p.ty t) := by
  intro rs rs' hrun t ht
  have hex : readyTasks p rs'.ts = [] := loopHead_exhausts cfg p store fuel sched
  obtain ⟨hc, _, _⟩ := submitPhase_reach (plan_PI cfg p store fuel) (reach_all cfg p store fuel sched) hrun
  have hnot : t ∉ readyAux p rs'.ts rs'.ts.pending (typeCount p rs'.ts.active) := by
    have := hex; simp only [readyTasks] at this; rw [this]; simp
  rcases not_ready_means_blocked p rs'.ts rs'.ts.pending _ t ht hnot with h | ⟨L, hL, hle⟩
  · left
    obtain ⟨d, hd⟩ := List.exists_mem_of_ne_nil _ h
    exact ⟨d, (hc.ts.mem_pd t d).mp hd⟩
  · right
    refine ⟨L, hL, ?_⟩
    have := hex; simp only [readyTasks] at this
    rw [this] at hle
    simpa [typeCount] using hle

/-- process runners: at every resting point no worker slot is idle while a future is queued -/
theorem no_idle_worker_at_rest (cfg : Config) (p : Problem) (store : Store) (fuel : Nat) (sched : List Choice)
    (hb : cfg.backend ≠ .serial) :
    let rs := runLoop cfg p (reqTids p) sched (initRS cfg p store fuel)
    let rs' := submitAll cfg p (readyTasks p rs.ts) rs
    rs'.queued = [] ∨ rs'.running.length = cfg.maxWorkers := by
  have hl := loopHead_live cfg p store fuel sched
  exact submitAll_noIdle cfg p hb _ _ hl.workers (hl.noIdle hb)

/-- non-vacuity: diamond with `max_parallel = 1` for the even tids, two workers: at the second loop
    head tasks 1 and 2 become ready together and both are started; nothing is left ready -/
example :
    let rs := runLoop invExCfg invExP (reqTids invExP) [chooseAll] (initRS invExCfg invExP [] 4)
    rs.status = .running ∧ readyTasks invExP rs.ts = [1, 2] ∧
    (submitAll invExCfg invExP (readyTasks invExP rs.ts) rs).ts.pending = [3] ∧
    (submitAll invExCfg invExP (readyTasks invExP rs.ts) rs).running.map Job.tid = [1, 2] := by decide

end Lt.Props.C05
