import LabtechModel.Proofs.StoreRefine
import LabtechModel.Proofs.LinkExampleKeys
import LabtechModel.Proofs.LinkDumps
/-!
# C06 — A cache hit returns the result and metadata stored for that very task

Over `Model/Store.lean` (storage provider as a key → entry map, `BaseCache` of any cache class,
`run_or_load_task`). Map laws of the cache, for every disk, every task, every stored result:
`save_then_cached`, `save_then_load` (value *and* start/duration), `save_frame` (other keys and other
tasks untouched), `load_own_entry` (what a load returns sits in an entry that names this very task),
and the run-level consequences `cache_hit_returns_stored` / `second_run_loads_first_runs_result`.

Hypotheses, spelled out where used: `KeyInj U` — distinct tasks have distinct cache keys (that is
property C07; its recorded known finding F07 is exactly a violation of this hypothesis);
`Wf U d` — every entry on the disk was written by `BaseCache.save` (holds for the empty disk and is
preserved by every Lab operation: `Props/C08.lean`, `lab_refines_map`).

**Discharged (second half of this file): the hypothesis `KeyInj`.** `keyInj_from_c07`
(= `Lt.Link.keyInj_of_params`, `Proofs/LinkKeys.lean`) derives it from the params model: the universe's
type / hash numbers stand for the class strings / sha1 digests of real parameter trees (`Represents`;
`store_key_is_real_key`: equal structured keys ⇒ equal real `cache_key` strings), the trees are
well-formed (`WfTasks`: `wfValue` at every depth — F07's input class stays excluded, as in C07) and
pairwise distinct, and the two named assumptions of C07 hold on the tasks that occur: `ShaInjOn` (sha1
does not collide) and `DumpsInjOn` (`json.dumps` separates the documents). `load_own_entry_params`,
`cache_hit_returns_stored_params`, `second_run_loads_first_runs_result_params`, `save_frame_params` are
the theorems above with `KeyInj` replaced by these assumptions. That the *scheduled* second run (any
backend, any schedule) is the `labRun` used here is `Props.C08.labRun_agrees_with_scheduler`.
-/
namespace Lt.Props.C06
open Lt.Store

/-- after `save`, `is_cached` reports the task (caching type, real storage) -/
theorem save_then_cached (U : Universe) (d : Disk) (t : Tid) (r : Stored)
    (hc : cacheable U t = true) (hs : U.nullStorage = false) :
    labIsCached U (cSave U d t r) t = true := cIsCached_save_same U d t r hc hs

/-- after `save`, `load_result_with_meta` returns exactly the saved value, start and duration -/
theorem save_then_load (U : Universe) (d : Disk) (t : Tid) (r : Stored)
    (hc : cacheable U t = true) (hs : U.nullStorage = false) :
    cLoad U (cSave U d t r) t = some r := cLoad_save_same U d t r hc hs

/-- a save touches no other key directory … -/
theorem save_frame_keys (U : Universe) (d : Disk) (t : Tid) (r : Stored) (k : Key) (h : k ≠ keyOf U t) :
    lookup k (cSave U d t r) = lookup k d := lookup_save_other U d t r k h

/-- … hence no other task: its cached-ness and what it loads are unchanged -/
theorem save_frame (U : Universe) (hinj : KeyInj U) (d : Disk) (t t' : Tid) (r : Stored) (h : t' ≠ t) :
    cLoad U (cSave U d t r) t' = cLoad U d t' ∧ labIsCached U (cSave U d t r) t' = labIsCached U d t' := by
  have hk : keyOf U t' ≠ keyOf U t := fun e => h (hinj _ _ e)
  exact ⟨cLoad_congr U d _ t' (lookup_save_other U d t r _ hk),
         cIsCached_congr U d _ t' (lookup_save_other U d t r _ hk)⟩

/-- a load never returns a result that was stored for a different task: whatever
    `load_result_with_meta` returns for `t` is the content of an entry whose metadata names `t` -/
theorem load_own_entry (U : Universe) (hinj : KeyInj U) (d : Disk) (wf : Wf U d) (t : Tid) (s : Stored)
    (h : cLoad U d t = some s) :
    ∃ e, (keyOf U t, e) ∈ d ∧ e.task = t ∧ e.key = keyOf U t ∧ e.cls = kindOf U t ∧
      s = { val := e.data, start := e.start, dur := e.dur } := by
  unfold cLoad at h
  cases hk : kindOf U t <;> rw [hk] at h <;> simp at h
  all_goals
    obtain ⟨_, h⟩ := h
    cases he : lookup (keyOf U t) d with
    | none => simp [he] at h
    | some e =>
      simp only [he] at h
      have hm := lookup_mem _ e d he
      have hw := wf _ e hm
      have het : e.task = t := (hinj _ _ hw.1).symm
      refine ⟨e, hm, het, hw.2.1, ?_, ?_⟩
      · rw [hw.2.2.1, het, hk]
      · split at h <;> simp at h; exact h.symm

/-- `run_or_load_task` on a cache hit: the stored value is handed out, `run()` is not called, and
    the meta that is set on the task objects is the stored start/duration -/
theorem cache_hit_returns_stored (U : Universe) (hinj : KeyInj U) (g : Nat) (fl : List Tid) (a : Acc) (wf : Wf U a.disk)
    (t : Tid) (s : Stored) (h : cLoad U a.disk t = some s) :
    stepC U false g fl a t = { a with vals := (t, some s.val) :: a.vals, loaded := (t, s) :: a.loaded } := by
  have : labIsCached U a.disk t = true := by
    unfold labIsCached; rw [isCached_iff_load U a.disk t wf hinj, h]; rfl
  simp [stepC, this, h]

/-- first run executes `t` and saves; any number of saves of *other* tasks later, a second
    (non-busting) `run_or_load_task` of `t` — same or new process, any backend: the disk is all that
    is shared — returns the first run's value without executing, with the first run's meta -/
theorem second_run_loads_first_runs_result (U : Universe) (hinj : KeyInj U) (d : Disk) (t : Tid) (r : Stored)
    (hc : cacheable U t = true) (hs : U.nullStorage = false)
    (others : List (Tid × Stored)) (hne : ∀ p ∈ others, p.1 ≠ t) (hlt : ∀ p ∈ others, p.1 < U.n)
    (wf : Wf U d) (ht : t < U.n) (g : Nat) (fl : List Tid) (a : Acc)
    (ha : a.disk = others.foldl (fun d p => cSave U d p.1 p.2) (cSave U d t r)) :
    (stepC U false g fl a t).vals = (t, some r.val) :: a.vals ∧
    (stepC U false g fl a t).execd = a.execd ∧
    (stepC U false g fl a t).loaded = (t, r) :: a.loaded := by
  have key : ∀ (l : List (Tid × Stored)) (d0 : Disk), (∀ p ∈ l, p.1 ≠ t) → (∀ p ∈ l, p.1 < U.n) → Wf U d0 →
      cLoad U d0 t = some r →
      Wf U (l.foldl (fun d p => cSave U d p.1 p.2) d0) ∧
      cLoad U (l.foldl (fun d p => cSave U d p.1 p.2) d0) t = some r := by
    intro l
    induction l with
    | nil => intro d0 _ _ w h; exact ⟨w, h⟩
    | cons p ps ih =>
      intro d0 hn hl w h
      simp only [List.foldl]
      apply ih
      · exact fun q hq => hn q (List.mem_cons_of_mem _ hq)
      · exact fun q hq => hl q (List.mem_cons_of_mem _ hq)
      · exact wf_save U d0 p.1 p.2 w (hl p (List.mem_cons_self ..))
      · rw [(save_frame U hinj d0 p.1 t p.2 (fun e => hn p (List.mem_cons_self ..) e.symm)).1]; exact h
  obtain ⟨w, hl⟩ := key others (cSave U d t r) hne hlt (wf_save U d t r wf ht) (save_then_load U d t r hc hs)
  rw [← ha] at w hl
  rw [cache_hit_returns_stored U hinj g fl a w t r hl]
  exact ⟨rfl, rfl, rfl⟩

/-! ## non-vacuity -/
def exU : Universe :=
  { n := 3, ty := fun t => if t = 2 then 1 else 0, cacheOf := fun T => if T = 0 then .pickle else .other,
    deps := fun t => if t = 2 then [0, 1] else [], fails := fun _ => false, hash := fun t => t,
    value := fun t g vs => 1000 * t + g + vs.foldl (· + ·) 0, namePrefix := fun a b => a == b,
    nullStorage := false }

example : KeyInj exU := by
  intro t t' h
  simp [keyOf, exU] at h
  exact h.2.2

/-- run, then run again: the second run executes nothing and returns the stored values and meta -/
example :
    let a1 := labRun exU false 1 [] [2] []
    let a2 := labRun exU false 2 [] [2] a1.disk
    a1.execd = [2, 1, 0] ∧ a2.execd = [] ∧ returned [2] a2 = returned [2] a1 ∧
    a2.loaded = [(2, { val := 3003, start := 1, dur := 102 })] := by decide


/-! ## `KeyInj` discharged from the params model (C07)

`Lt.Link.keyInj_of_params` (`Proofs/LinkKeys.lean`): when the universe's type / hash numbers stand for
the class strings / sha1 digests of real parameter trees `task t` (`Represents`), every tree is
well-formed (`WfTasks`: `wfValue` at every depth, so F07's input class stays excluded exactly as in
C07), tids name distinct tasks (`Distinct`), sha1 does not collide on the pre-images that occur
(`ShaInjOn`) and `json.dumps` separates the documents that occur (`DumpsInjOn`), then `KeyInj U`.
The theorems above, with `KeyInj` replaced by these assumptions: -/

/-- `KeyInj` of a universe that represents well-formed, pairwise distinct parameter trees -/
theorem keyInj_from_c07 (U : Universe) (sha1 : String → String) (task : Nat → Lt.Params.Task)
    (hrep : Lt.Link.Represents U sha1 task) (hwf : Lt.Link.WfTasks U.n task) (hdist : Lt.Link.Distinct U.n task)
    (hsha : Lt.Link.ShaInjOn sha1 U.n task) (hdumps : Lt.Link.DumpsInjOn U.n task) : KeyInj U :=
  Lt.Link.keyInj_of_params U sha1 task hrep hwf hdist hsha hdumps

/-- equal structured keys of the history model mean equal real `cache_key` strings -/
theorem store_key_is_real_key (U : Universe) (sha1 : String → String) (task : Nat → Lt.Params.Task)
    (hrep : Lt.Link.Represents U sha1 task) (hwf : Lt.Link.WfTasks U.n task) (fmt : Lt.Params.CacheFmt)
    (t t' : Nat) (ht : t < U.n) (ht' : t' < U.n) (h : keyOf U t = keyOf U t') :
    Lt.Params.cacheKey sha1 fmt (task t) = Lt.Params.cacheKey sha1 fmt (task t') :=
  Lt.Link.storeKey_eq_realKey_eq U sha1 task hrep hwf fmt t t' ht ht' h

theorem save_frame_params (U : Universe) (sha1 : String → String) (task : Nat → Lt.Params.Task)
    (hrep : Lt.Link.Represents U sha1 task) (hwf : Lt.Link.WfTasks U.n task) (hdist : Lt.Link.Distinct U.n task)
    (hsha : Lt.Link.ShaInjOn sha1 U.n task) (hdumps : Lt.Link.DumpsInjOn U.n task)
    (d : Disk) (t t' : Nat) (r : Stored) (h : t' ≠ t) :
    cLoad U (cSave U d t r) t' = cLoad U d t' ∧ labIsCached U (cSave U d t r) t' = labIsCached U d t' :=
  save_frame U (keyInj_from_c07 U sha1 task hrep hwf hdist hsha hdumps) d t t' r h

/-- `load_own_entry` with `KeyInj` replaced by the C07 assumptions -/
theorem load_own_entry_params (U : Universe) (sha1 : String → String) (task : Nat → Lt.Params.Task)
    (hrep : Lt.Link.Represents U sha1 task) (hwf : Lt.Link.WfTasks U.n task) (hdist : Lt.Link.Distinct U.n task)
    (hsha : Lt.Link.ShaInjOn sha1 U.n task) (hdumps : Lt.Link.DumpsInjOn U.n task)
    (d : Disk) (wf : Wf U d) (t : Nat) (s : Stored) (h : cLoad U d t = some s) :
    ∃ e, (keyOf U t, e) ∈ d ∧ e.task = t ∧ e.key = keyOf U t ∧ e.cls = kindOf U t ∧
      s = { val := e.data, start := e.start, dur := e.dur } :=
  load_own_entry U (keyInj_from_c07 U sha1 task hrep hwf hdist hsha hdumps) d wf t s h

/-- `cache_hit_returns_stored` with `KeyInj` replaced by the C07 assumptions -/
theorem cache_hit_returns_stored_params (U : Universe) (sha1 : String → String) (task : Nat → Lt.Params.Task)
    (hrep : Lt.Link.Represents U sha1 task) (hwf : Lt.Link.WfTasks U.n task) (hdist : Lt.Link.Distinct U.n task)
    (hsha : Lt.Link.ShaInjOn sha1 U.n task) (hdumps : Lt.Link.DumpsInjOn U.n task)
    (g : Nat) (fl : List Nat) (a : Acc) (wf : Wf U a.disk) (t : Nat) (s : Stored) (h : cLoad U a.disk t = some s) :
    stepC U false g fl a t = { a with vals := (t, some s.val) :: a.vals, loaded := (t, s) :: a.loaded } :=
  cache_hit_returns_stored U (keyInj_from_c07 U sha1 task hrep hwf hdist hsha hdumps) g fl a wf t s h

/-- `second_run_loads_first_runs_result` with `KeyInj` replaced by the C07 assumptions -/
theorem second_run_loads_first_runs_result_params (U : Universe) (sha1 : String → String)
    (task : Nat → Lt.Params.Task)
    (hrep : Lt.Link.Represents U sha1 task) (hwf : Lt.Link.WfTasks U.n task) (hdist : Lt.Link.Distinct U.n task)
    (hsha : Lt.Link.ShaInjOn sha1 U.n task) (hdumps : Lt.Link.DumpsInjOn U.n task)
    (d : Disk) (t : Nat) (r : Stored)
    (hc : cacheable U t = true) (hs : U.nullStorage = false)
    (others : List (Nat × Stored)) (hne : ∀ p ∈ others, p.1 ≠ t) (hlt : ∀ p ∈ others, p.1 < U.n)
    (wf : Wf U d) (ht : t < U.n) (g : Nat) (fl : List Nat) (a : Acc)
    (ha : a.disk = others.foldl (fun d p => cSave U d p.1 p.2) (cSave U d t r)) :
    (stepC U false g fl a t).vals = (t, some r.val) :: a.vals ∧
    (stepC U false g fl a t).execd = a.execd ∧
    (stepC U false g fl a t).loaded = (t, r) :: a.loaded :=
  second_run_loads_first_runs_result U (keyInj_from_c07 U sha1 task hrep hwf hdist hsha hdumps)
    d t r hc hs others hne hlt wf ht g fl a ha

/-- non-vacuity: the universe `Lt.Link.exPU` is built from three real parameter trees
    (`m.Leaf(x=1)`, `m.Raw(y="a")` with `cache=None`, `m.Box(a=Leaf, b=Raw)` depending on both) and
    satisfies every assumption; its `KeyInj` is a consequence, also through the real key string -/
example : Lt.Link.Represents Lt.Link.exPU Lt.Link.exSha Lt.Link.exTask ∧ Lt.Link.WfTasks 3 Lt.Link.exTask ∧
    Lt.Link.Distinct 3 Lt.Link.exTask ∧ Lt.Link.ShaInjOn Lt.Link.exSha 3 Lt.Link.exTask ∧
    Lt.Link.DumpsInjOn 3 Lt.Link.exTask ∧ (∀ x, (Lt.Link.exSha x).toList.length = 40) ∧ KeyInj Lt.Link.exPU :=
  ⟨Lt.Link.exPU_represents, Lt.Link.exTask_wf, Lt.Link.exTask_distinct, Lt.Link.exSha_injOn,
   Lt.Link.exTask_dumpsInj, Lt.Link.exSha_len,
   Lt.Link.keyInj_of_params_via_cacheKey Lt.Link.exPU Lt.Link.exSha Lt.Link.exSha_len Lt.Link.exTask
     Lt.Link.exPU_represents Lt.Link.exTask_wf Lt.Link.exTask_distinct Lt.Link.exSha_injOn Lt.Link.exTask_dumpsInj⟩

set_option maxRecDepth 100000 in
/-- on `exPU`: the second run loads what the first run stored; `Raw` (`cache=None`) is executed again -/
example :
    let a1 := labRun Lt.Link.exPU false 1 [] [2] []
    let a2 := labRun Lt.Link.exPU false 2 [] [2, 1] a1.disk
    a1.execd = [2, 1, 0] ∧ a2.execd = [1] ∧ a2.loaded = [(2, { val := 3003, start := 1, dur := 102 })] ∧
    returned [2] a2 = returned [2] a1 ∧
    (keyOf Lt.Link.exPU 0).cls = .pickle ∧ (keyOf Lt.Link.exPU 1).cls = .null ∧ (keyOf Lt.Link.exPU 2).cls = .other := by
  decide

end Lt.Props.C06

/-! ## the `json.dumps` assumption proved

`DumpsInjOn` is now a theorem (`Lt.Link.dumpsInjOn_of_wfFloats`, from `Lt.Params.dumps_injective`,
`Proofs/DumpsInj.lean`) for every family of tasks whose float parameters carry float tokens
(`Lt.Link.WfFloatsOn`: the decidable `Task.wfFloats` for each task of the universe — a well-formedness
condition of the model's token-carrying `.float` leaves, satisfied by every token `float.__repr__`
prints).  SHA-1 collision-freeness (`ShaInjOn`) is the one named assumption that remains. -/
namespace Lt.Props.C06
open Lt.Store

/-- `keyInj_from_c07` without the `json.dumps` assumption -/
theorem keyInj_from_c07_dumps_proved (U : Universe) (sha1 : String → String) (task : Nat → Lt.Params.Task)
    (hrep : Lt.Link.Represents U sha1 task) (hwf : Lt.Link.WfTasks U.n task) (hdist : Lt.Link.Distinct U.n task)
    (hsha : Lt.Link.ShaInjOn sha1 U.n task) (hfl : Lt.Link.WfFloatsOn U.n task) : KeyInj U :=
  keyInj_from_c07 U sha1 task hrep hwf hdist hsha (Lt.Link.dumpsInjOn_of_wfFloats U.n task hfl)

/-- `cache_hit_returns_stored_params` without the `json.dumps` assumption -/
theorem cache_hit_returns_stored_params_dumps_proved (U : Universe) (sha1 : String → String)
    (task : Nat → Lt.Params.Task)
    (hrep : Lt.Link.Represents U sha1 task) (hwf : Lt.Link.WfTasks U.n task) (hdist : Lt.Link.Distinct U.n task)
    (hsha : Lt.Link.ShaInjOn sha1 U.n task) (hfl : Lt.Link.WfFloatsOn U.n task)
    (g : Nat) (fl : List Nat) (a : Acc) (wf : Wf U a.disk) (t : Nat) (s : Stored) (h : cLoad U a.disk t = some s) :
    stepC U false g fl a t = { a with vals := (t, some s.val) :: a.vals, loaded := (t, s) :: a.loaded } :=
  cache_hit_returns_stored_params U sha1 task hrep hwf hdist hsha
    (Lt.Link.dumpsInjOn_of_wfFloats U.n task hfl) g fl a wf t s h

/-- `second_run_loads_first_runs_result_params` without the `json.dumps` assumption -/
theorem second_run_loads_first_runs_result_params_dumps_proved (U : Universe) (sha1 : String → String)
    (task : Nat → Lt.Params.Task)
    (hrep : Lt.Link.Represents U sha1 task) (hwf : Lt.Link.WfTasks U.n task) (hdist : Lt.Link.Distinct U.n task)
    (hsha : Lt.Link.ShaInjOn sha1 U.n task) (hfl : Lt.Link.WfFloatsOn U.n task)
    (d : Disk) (t : Nat) (r : Stored)
    (hc : cacheable U t = true) (hs : U.nullStorage = false)
    (others : List (Nat × Stored)) (hne : ∀ p ∈ others, p.1 ≠ t) (hlt : ∀ p ∈ others, p.1 < U.n)
    (wf : Wf U d) (ht : t < U.n) (g : Nat) (fl : List Nat) (a : Acc)
    (ha : a.disk = others.foldl (fun d p => cSave U d p.1 p.2) (cSave U d t r)) :
    (stepC U false g fl a t).vals = (t, some r.val) :: a.vals ∧
    (stepC U false g fl a t).execd = a.execd ∧
    (stepC U false g fl a t).loaded = (t, r) :: a.loaded :=
  second_run_loads_first_runs_result_params U sha1 task hrep hwf hdist hsha
    (Lt.Link.dumpsInjOn_of_wfFloats U.n task hfl) d t r hc hs others hne hlt wf ht g fl a ha

/-- non-vacuity: `Lt.Link.exPU` satisfies every hypothesis of the `_dumps_proved` theorems, and its
    `KeyInj` follows without any `json.dumps` assumption -/
example : Lt.Link.Represents Lt.Link.exPU Lt.Link.exSha Lt.Link.exTask ∧ Lt.Link.WfTasks 3 Lt.Link.exTask ∧
    Lt.Link.Distinct 3 Lt.Link.exTask ∧ Lt.Link.ShaInjOn Lt.Link.exSha 3 Lt.Link.exTask ∧
    Lt.Link.WfFloatsOn 3 Lt.Link.exTask ∧ KeyInj Lt.Link.exPU :=
  ⟨Lt.Link.exPU_represents, Lt.Link.exTask_wf, Lt.Link.exTask_distinct, Lt.Link.exSha_injOn,
   Lt.Link.exTask_wfFloats,
   keyInj_from_c07_dumps_proved Lt.Link.exPU Lt.Link.exSha Lt.Link.exTask Lt.Link.exPU_represents
     Lt.Link.exTask_wf Lt.Link.exTask_distinct Lt.Link.exSha_injOn Lt.Link.exTask_wfFloats⟩

end Lt.Props.C06
