import LabtechModel.Proofs.SaveExec
/-!
# C12 — A save that fails leaves no entry that looks cached

Over the micro-step model of `BaseCache.save` (`Model/Save.lean`). Quantified over: every number of
write calls on either file (`n+1`, `m+1`), every pre-state of the entry that is itself safe (first
save: absent; overwrite: a good entry of an earlier save), every single fault position `k` in the
micro-step list — including "serialising raises" (`k = 0`, outside the `try`), "pickling raises after
`j` frames were written" (a `writeData` step raising), "close raises" — with the failing step having
had its effect or not. Single fault: the `storage.delete` of the handler itself works (`Del.ok`);
what a second fault inside that delete can leave is shown by `double_fault_witness` (outside the
property's quantifier "every single-fault injection point").
-/
namespace Lt.Props.C12
open Lt.Save

/-- what the code does now: a fault anywhere inside the `try` ends with the entry deleted -/
theorem failed_save_leaves_absent (n m : Nat) (new : Ver) (pre : Entry) (k : Nat) (eff : Bool)
    (h1 : 1 ≤ k) (h2 : k ≤ total n m) :
    (faultSave n m new pre k eff .ok).entry = .absent := by
  simp only [faultSave]
  rw [if_neg (by omega), if_pos h2]
  rfl

/-- a fault while building the metadata (before the `try`) touches nothing -/
theorem serialise_fault_untouched (n m : Nat) (new : Ver) (pre : Entry) (eff : Bool) (del : Del) :
    (faultSave n m new pre 0 eff del).entry = pre := by
  simp [faultSave]

/-- a save that no fault strikes ends with the complete new entry, whatever was there before -/
theorem unfaulted_save_complete (n m : Nat) (new : Ver) (pre : Entry) (k : Nat) (eff : Bool) (del : Del)
    (h : total n m < k) :
    (faultSave n m new pre k eff del).entry = .dir (.full new) (.full new) := by
  simp only [faultSave]
  rw [if_neg (by omega), if_neg (by omega), exec_done n m new pre _ (by simp [total])]
  cases pre <;> rfl

/-- **C12**: for every save, every write count, every single fault position and both variants of the
    failing step, the entry afterwards is not reported cached, or loads the value *and* meta of one
    save that is legitimate for this task (the one being saved, or the earlier good one). -/
theorem failed_save_safe (n m : Nat) (new : Ver) (good : List Ver) (pre : Entry) (k : Nat) (eff : Bool)
    (hpre : safeB good pre = true) (hnew : new ∈ good) :
    safeB good (faultSave n m new pre k eff .ok).entry = true := by
  by_cases h0 : k = 0
  · subst h0; rw [serialise_fault_untouched]; exact hpre
  by_cases h2 : k ≤ total n m
  · rw [failed_save_leaves_absent n m new pre k eff (by omega) h2]; rfl
  · rw [unfaulted_save_complete n m new pre k eff .ok (by omega)]
    simp only [safeB, isCached, load, Bool.not_true, Bool.false_or, List.any_eq_true]
    exact ⟨new, hnew, by simp⟩

/-- the two pre-states the property names: first save and overwrite of a good entry -/
theorem failed_save_safe_first_or_overwrite (n m : Nat) (old new : Ver) (overwrite : Bool) (k : Nat) (eff : Bool) :
    safeB (goodOf overwrite old new) (faultSave n m new (preOf overwrite old) k eff .ok).entry = true := by
  apply failed_save_safe
  · cases overwrite <;> simp [safeB, preOf, goodOf, isCached, load]
  · cases overwrite <;> simp [goodOf]

/-- every fault inside the save makes `save` raise, so `run_or_load_task` raises and the task is
    reported failed -/
theorem failed_save_reports_failure (n m : Nat) (new : Ver) (pre : Entry) (k : Nat) (eff : Bool) (del : Del)
    (h : k ≤ total n m) :
    (faultSave n m new pre k eff del).raised = true ∧
    runOrLoadOutcome (faultSave n m new pre k eff del) = .failed := by
  have : (faultSave n m new pre k eff del).raised = true := by
    simp only [faultSave]
    by_cases h0 : k = 0
    · simp [h0]
    · rw [if_neg h0, if_pos h]
  exact ⟨this, by simp [runOrLoadOutcome, this]⟩

/-- `cached_tasks` after a failed save: it does not raise, it does not list the entry after a fault
    inside the `try`, and whenever it lists the entry, the entry loads (value and meta of one
    legitimate save) -/
theorem failed_save_not_listed (n m : Nat) (new : Ver) (good : List Ver) (pre : Entry) (k : Nat) (eff : Bool)
    (hpre : safeB good pre = true) (hnew : new ∈ good) :
    (1 ≤ k → k ≤ total n m → listing (faultSave n m new pre k eff .ok).entry = .notListed) ∧
    listing (faultSave n m new pre k eff .ok).entry ≠ .raises ∧
    (∀ mv, listing (faultSave n m new pre k eff .ok).entry = .listed mv →
      mv ∈ good ∧ load (faultSave n m new pre k eff .ok).entry = .ok mv mv) := by
  have hs := failed_save_safe n m new good pre k eff hpre hnew
  refine ⟨fun h1 h2 => by rw [failed_save_leaves_absent n m new pre k eff h1 h2]; rfl, ?_, ?_⟩
  · generalize (faultSave n m new pre k eff .ok).entry = e at hs
    cases e with
    | absent => simp [listing]
    | dir md d =>
      cases md <;> cases d <;> simp_all [safeB, isCached, load, listing]
  · intro mv
    generalize (faultSave n m new pre k eff .ok).entry = e at hs
    cases e with
    | absent => simp [listing]
    | dir md d =>
      cases md <;> cases d <;> simp_all [safeB, isCached, load, listing]
      all_goals (intro h; subst h; simp_all)

/-- why the handler is there (the defect D7 repaired by commit c5142b0): the same save *without*
    the cleanup leaves, for a fault at any step from the first `open` up to the last data write, a
    first-save entry that is reported cached and does not load -/
theorem cleanup_is_needed (n m : Nat) (new : Ver) (k : Nat) (h1 : 3 ≤ k) (h2 : k ≤ 9 + n + m) :
    isCached (faultSaveNoCleanup n m new .absent k false) = true ∧
    load (faultSaveNoCleanup n m new .absent k false) = .fails := by
  simp only [faultSaveNoCleanup, Bool.false_eq_true, if_false]
  by_cases h3 : k = 3
  · subst h3; rw [exec_mkdir]; simp [closeOnError, mkdirE, isCached, load]
  by_cases h5 : k ≤ 5 + n
  · rw [exec_metaOpen n m new _ k (by omega) h5]
    simp only [closeOnError, apply, mkdirE, setMeta]
    split <;> simp [isCached, load]
  by_cases h8 : k ≤ 8 + n
  · rw [exec_between n m new _ k (by omega) h8]; simp [closeOnError, mkdirE, setMeta, isCached, load]
  rw [exec_dataOpen n m new _ k (by omega) (by omega)]
  simp only [closeOnError, apply, mkdirE, setMeta, setData]
  have : ¬ (k - 9 - n = m + 1) := by omega
  simp [this, isCached, load]

/-! ## non-vacuity and witnesses -/

/-- a multi-frame save (3 metadata writes, 4 data writes) overwriting a good entry, the 2nd data
    write raising after its effect: entry gone, failure reported -/
example : faultSave 2 3 1 (preOf true 0) 13 true .ok = { entry := .absent, raised := true } := by decide

/-- serialising raises during an overwrite: the earlier entry is still there and loads -/
example : (faultSave 2 3 1 (preOf true 0) 0 false .ok).entry = .dir (.full 0) (.full 0) ∧
    safeB (goodOf true 0 1) (faultSave 2 3 1 (preOf true 0) 0 false .ok).entry = true := by decide

/-- the hypotheses of `failed_save_safe` are satisfiable in both modes -/
example : safeB (goodOf false 0 1) (preOf false 0) = true ∧ safeB (goodOf true 0 1) (preOf true 0) = true ∧
    (1 : Ver) ∈ goodOf false 0 1 ∧ (1 : Ver) ∈ goodOf true 0 1 := by decide

/-- without the handler (code before commit c5142b0): an unpicklable result (first data write
    raises) leaves a cached-looking entry that does not load -/
example : isCached (faultSaveNoCleanup 0 0 1 .absent 9 false) = true ∧
    load (faultSaveNoCleanup 0 0 1 .absent 9 false) = .fails := by decide

/-- double fault (outside the property's quantifier): if the handler's `storage.delete` fails too
    after removing only the result file, a cached-looking unloadable entry remains -/
example : safeB [1] (faultSave 0 0 1 .absent 9 false (.failed false true)).entry = false := by decide

end Lt.Props.C12
