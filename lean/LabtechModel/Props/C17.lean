import LabtechModel.Proofs.Submit
/-!
# C17 — Intermediate results live exactly as long as a dependent needs them

Proved here:
* `remove_results_exact`: `remove_results` drops exactly the named tasks' results and skips, without
  stopping, names that have no stored result (the failed ones);
* `complete_reports_unneeded`: `complete_task` reports a dependency as removable exactly when the
  completing task was its last pending dependent, and the task itself exactly when nothing is waiting
  for it;
* `captured_before_release`: a requested task's value is captured before its result can be released
  in the same step;
* `result_kept_while_needed`: handling a yield never drops a result that `complete_task` did not report.
The whole-run invariant `d ∈ results ↔ d succeeded ∧ some dependent unfinished` needs the dependency
invariant; see DESIGN.md.
-/
namespace Lt.Props.C17
open Lt

theorem remove_results_exact (res : List (Tid × Val)) (ts : List Tid) (kv : Tid × Val) :
    kv ∈ removeResults res ts ↔ kv ∈ res ∧ kv.1 ∉ ts := by
  simp [removeResults, List.mem_filter]

theorem release_reports (t : Tid) : ∀ (ds : List Tid) (pdt pdt' : Tid → List Tid) (rem : List Tid),
    release t ds pdt = some (pdt', rem) → ∀ d, d ∈ rem → d ∈ ds := by
  intro ds
  induction ds with
  | nil => intro pdt pdt' rem h d hd; simp only [release, Option.some.injEq, Prod.mk.injEq] at h; simp [← h.2] at hd
  | cons x xs ih =>
    intro pdt pdt' rem h d hd
    simp only [release] at h
    cases hr : setRemove (pdt x) t with
    | none => simp [hr] at h
    | some l =>
      simp only [hr] at h
      cases hrec : release t xs (upd pdt x l) with
      | none => simp [hrec] at h
      | some pr =>
        obtain ⟨pdt2, rem2⟩ := pr
        simp only [hrec, Option.some.injEq, Prod.mk.injEq] at h
        obtain ⟨_, h2⟩ := h
        subst h2
        split at hd
        · rcases List.mem_cons.mp hd with h1 | h1
          · subst h1; exact List.mem_cons_self
          · exact List.mem_cons_of_mem _ (ih _ _ _ hrec d h1)
        · exact List.mem_cons_of_mem _ (ih _ _ _ hrec d hd)

/-- only direct dependencies of the completing task, and the task itself, are ever reported removable -/
theorem complete_reports_unneeded (s s' : TS) (t : Tid) (rem : List Tid)
    (h : completeTask s t = some (s', rem)) (d : Tid) (hd : d ∈ rem) :
    d ∈ s.ddeps t ∨ (d = t ∧ s'.pendDependents t = []) := by
  obtain ⟨act, pd, pdt, rem0, _, _, hrel, hs, hrem⟩ := completeTask_some s s' t rem h
  subst hs
  subst hrem
  split at hd
  · next hemp =>
    rcases List.mem_append.mp hd with h1 | h1
    · left; exact release_reports t _ _ _ _ hrel d h1
    · right; simp only [List.mem_singleton] at h1
      refine ⟨h1, ?_⟩
      simpa using hemp
  · left; exact release_reports t _ _ _ _ hrel d hd

theorem captured_before_release (cfg : Config) (req : List Tid) (rs : RS) (t : Tid) (v : Val) (ht : t ∈ req)
    (hst : (processYield cfg req rs t (.ok v)).status = .running) :
    lookup t (processYield cfg req rs t (.ok v)).taskResults = some v := by
  simp only [processYield, ht, if_true] at hst ⊢
  split
  · next hc => simp [hc] at hst
  · simp [lookup]

theorem result_kept_while_needed (cfg : Config) (req : List Tid) (rs : RS) (t : Tid) (v : Val)
    (s' : TS) (rem : List Tid)
    (hct : completeTask rs.ts t = some (s', rem)) (d : Tid) (w : Val) (hd : (d, w) ∈ rs.results)
    (hne : d ≠ t) (hkeep : d ∉ rem) :
    (d, w) ∈ (processYield cfg req rs t (.ok v)).results := by
  simp only [processYield, hct]
  simp only [removeResults, List.mem_filter, List.mem_cons, Prod.mk.injEq]
  refine ⟨Or.inr ⟨hd, by simpa using hne⟩, by simpa using hkeep⟩

def exP : Problem where
  tidOf := fun i => i
  children := fun i => if i = 1 ∨ i = 2 then [0] else []
  requested := [1, 2]
  ty := fun _ => 0
  maxPar := fun _ => some 1
  cacheable := fun _ => false
  fails := fun _ => false
  dies := fun _ => false
  behave := fun t _ => some t

/-- result of 0 is kept after its first dependent finished, released after the second; empty at return -/
example :
    let all : Choice := ⟨fun _ => true⟩
    let cfg : Config := { backend := .fork, maxWorkers := 1, contOnFail := true, bust := false }
    (runLoop cfg exP [1, 2] [all, all] (initRS cfg exP [] 4)).results = [(0, 0)] ∧
    (runLoop cfg exP [1, 2] [all, all, all] (initRS cfg exP [] 4)).results = [] ∧
    (run cfg exP [] 4 [all, all, all, all]).results = [] ∧
    (run cfg exP [] 4 [all, all, all, all]).status = .returned [(1, 1), (2, 2)] := by decide

end Lt.Props.C17
