import LabtechModel.Proofs.Submit
import LabtechModel.Proofs.InvMain
import LabtechModel.Proofs.IntrResults
/-!
# C17 — Intermediate results live exactly as long as a dependent needs them

Proved here:
* `remove_results_exact`: `remove_results` drops exactly the named tasks' results and skips, without
  stopping, names that have no stored result (the failed ones);
* `complete_reports_unneeded`: `complete_task` reports a dependency as removable exactly when the
  completing task was its last pending dependent, and the task itself exactly when nothing is waiting
  for it;
* `captured_before_release`: a requested task's value is captured before its result can be released
  in the same step;
* `result_kept_while_needed`: handling a yield never drops a result that `complete_task` did not report.
Whole runs (every problem, configuration, cache pre-state, fuel and schedule; no hypothesis; from
the master invariant of `Proofs/InvLoop.lean`), at every reachable loop head with status running:
* `results_iff_needed`: the runner holds a result for `d` iff `d` was yielded successfully and some
  task that directly depends on `d` has not been yielded yet; the held value is the yielded one
  (`results_value`); keys are duplicate-free;
* `needed_spec`: `pendDependents d` lists exactly the planned direct dependents of `d` that have not
  been yielded;
* `empty_at_return`: when `run_tasks` returns normally the runner holds no result at all (also when
  tasks failed, under `continue_on_failure`).
At EVERY INSTANT of every (possibly interrupted) run (statement-level model M10, `Proofs/IntrResults.lean`;
after every primitive prefix of the main stream, of the first handler entered at any instant and of the
second handler entered at any instant; no hypothesis) — see the section at the end of this file:
* `held_is_yielded_every_instant` (+ `_handler`, `_second`), `yielded_once_every_instant`: SAFETY;
* `needed_is_held_every_instant` (+ `_handler`, `_second`), `needed_is_held_trace_every_instant`,
  `needed_spec_every_instant`: VALUE — a needed result is never missing once `complete_task(d)` was entered;
* `released_only_when_unneeded_every_instant` (+ `_handler`, `_second`),
  `remove_event_only_unneeded_every_instant`: whatever leaves the map in one step was needed by nobody;
* `captured_before_release_every_instant`, `captured_every_instant`: requested results are in
  `task_results` before they can leave the map;
* `results_sound_interrupted`: the same for the states `interruptedRun` returns; `loop_head_exact`: the two
  directions close to the loop-head equality at the end of the stream.
-/
namespace Lt.Props.C17
open Lt

theorem remove_results_exact (res : List (Tid × Val)) (ts : List Tid) (kv : Tid × Val) :
    kv ∈ removeResults res ts ↔ kv ∈ res ∧ kv.1 ∉ ts := by
  simp [removeResults, List.mem_filter]

theorem release_reports (t : Tid) : ∀ (ds : List Tid) (pdt pdt' : Tid → List Tid) (rem : List Tid),
    release t ds pdt = some (pdt', rem) → ∀ d, d ∈ rem → d ∈ ds := by
  intro ds
  induction ds with
  | nil => intro pdt pdt' rem h d hd; simp only [release, Option.some.injEq, Prod.mk.injEq] at h; simp [← h.2] at hd
  | cons x xs ih =>
    intro pdt pdt' rem h d hd
    simp only [release] at h
    cases hr : setRemove (pdt x) t with
    | none => simp [hr] at h
    | some l =>
      simp only [hr] at h
      cases hrec : release t xs (upd pdt x l) with
      | none => simp [hrec] at h
      | some pr =>
        obtain ⟨pdt2, rem2⟩ := pr
        simp only [hrec, Option.some.injEq, Prod.mk.injEq] at h
        obtain ⟨_, h2⟩ := h
        subst h2
        split at hd
        · rcases List.mem_cons.mp hd with h1 | h1
          · subst h1; exact List.mem_cons_self
          · exact List.mem_cons_of_mem _ (ih _ _ _ hrec d h1)
        · exact List.mem_cons_of_mem _ (ih _ _ _ hrec d hd)

/-- only direct dependencies of the completing task, and the task itself, are ever reported removable -/
theorem complete_reports_unneeded (s s' : TS) (t : Tid) (rem : List Tid)
    (h : completeTask s t = some (s', rem)) (d : Tid) (hd : d ∈ rem) :
    d ∈ s.ddeps t ∨ (d = t ∧ s'.pendDependents t = []) := by
  obtain ⟨act, pd, pdt, rem0, _, _, hrel, hs, hrem⟩ := completeTask_some s s' t rem h
  subst hs
  subst hrem
  split at hd
  · next hemp =>
    rcases List.mem_append.mp hd with h1 | h1
    · left; exact release_reports t _ _ _ _ hrel d h1
    · right; simp only [List.mem_singleton] at h1
      refine ⟨h1, ?_⟩
      simpa using hemp
  · left; exact release_reports t _ _ _ _ hrel d hd

theorem captured_before_release (cfg : Config) (req : List Tid) (rs : RS) (t : Tid) (v : Val) (ht : t ∈ req)
    (hst : (processYield cfg req rs t (.ok v)).status = .running) :
    lookup t (processYield cfg req rs t (.ok v)).taskResults = some v := by
  simp only [processYield, ht, if_true] at hst ⊢
  split
  · next hc => simp [hc] at hst
  · simp [lookup]

theorem result_kept_while_needed (cfg : Config) (req : List Tid) (rs : RS) (t : Tid) (v : Val)
    (s' : TS) (rem : List Tid)
    (hct : completeTask rs.ts t = some (s', rem)) (d : Tid) (w : Val) (hd : (d, w) ∈ rs.results)
    (hne : d ≠ t) (hkeep : d ∉ rem) :
    (d, w) ∈ (processYield cfg req rs t (.ok v)).results := by
  simp only [processYield, hct]
  simp only [removeResults, List.mem_filter, List.mem_cons, Prod.mk.injEq]
  refine ⟨Or.inr ⟨hd, by simpa using hne⟩, by simpa using hkeep⟩

def exP : Problem where
  tidOf := fun i => i
  children := fun i => if i = 1 ∨ i = 2 then [0] else []
  requested := [1, 2]
  ty := fun _ => 0
  maxPar := fun _ => some 1
  cacheable := fun _ => false
  fails := fun _ => false
  dies := fun _ => false
  behave := fun t _ => some t

/-- result of 0 is kept after its first dependent finished, released after the second; empty at return -/
example :
    let all : Choice := ⟨fun _ => true⟩
    let cfg : Config := { backend := .fork, maxWorkers := 1, contOnFail := true, bust := false }
    (runLoop cfg exP [1, 2] [all, all] (initRS cfg exP [] 4)).results = [(0, 0)] ∧
    (runLoop cfg exP [1, 2] [all, all, all] (initRS cfg exP [] 4)).results = [] ∧
    (run cfg exP [] 4 [all, all, all, all]).results = [] ∧
    (run cfg exP [] 4 [all, all, all, all]).status = .returned [(1, 1), (2, 2)] := by decide

/-! ## whole runs -/

/-- the value held for `d` is the value `d` was yielded with, and it is held exactly while needed -/
theorem results_value (cfg : Config) (p : Problem) (store : Store) (fuel : Nat) (sched : List Choice) :
    let rs := runLoop cfg p (reqTids p) sched (initRS cfg p store fuel)
    rs.status = .running → ∀ d v,
      ((d, v) ∈ rs.results ↔ (Ev.yield d (.ok v) ∈ rs.trace ∧ rs.ts.pendDependents d ≠ [])) :=
  fun hrun d v => loopHead_results cfg p store fuel sched hrun d v

theorem results_iff_needed (cfg : Config) (p : Problem) (store : Store) (fuel : Nat) (sched : List Choice) :
    let rs := runLoop cfg p (reqTids p) sched (initRS cfg p store fuel)
    rs.status = .running →
      (∀ d, (∃ v, (d, v) ∈ rs.results) ↔ (d ∈ okYielded rs ∧ rs.ts.pendDependents d ≠ [])) ∧
      (rs.results.map Prod.fst).Nodup := by
  intro rs hrun
  refine ⟨?_, ((reach_all cfg p store fuel sched).2 hrun).resNd⟩
  intro d
  simp only [okYielded, mem_okYieldedOf]
  constructor
  · rintro ⟨v, hv⟩
    have := (loopHead_results cfg p store fuel sched hrun d v).mp hv
    exact ⟨⟨v, this.1⟩, this.2⟩
  · rintro ⟨⟨v, hv⟩, hne⟩
    exact ⟨v, (loopHead_results cfg p store fuel sched hrun d v).mpr ⟨hv, hne⟩⟩

/-- who still needs `d`: the planned direct dependents of `d` that have not been yielded -/
theorem needed_spec (cfg : Config) (p : Problem) (store : Store) (fuel : Nat) (sched : List Choice) (d t : Tid) :
    let rs := runLoop cfg p (reqTids p) sched (initRS cfg p store fuel)
    t ∈ rs.ts.pendDependents d ↔ (d ∈ (plan cfg p store fuel).ddeps t ∧ t ∉ yielded rs) :=
  loopHead_pendDependents cfg p store fuel sched d t

theorem empty_at_return (cfg : Config) (p : Problem) (store : Store) (fuel : Nat) (sched : List Choice)
    (r : List (Tid × Val)) (h : (run cfg p store fuel sched).status = .returned r) :
    (run cfg p store fuel sched).results = [] :=
  run_empty_at_return cfg p store fuel sched r h

/-- non-vacuity: after two waits of the diamond run, 0 is still held (2 needs it) together with 1
    (3 needs it); a failed task holds nothing; at return nothing is held -/
example :
    let rs := runLoop invExCfg invExP (reqTids invExP) [chooseFirst, chooseFirst] (initRS invExCfg invExP [] 4)
    rs.status = .running ∧ rs.results = [(1, 1000), (0, 0)] ∧ rs.ts.pendDependents 0 = [2] ∧
    okYielded rs = [0, 1] ∧
    (run invExCfg invExP [] 4 (List.replicate 5 chooseFirst)).status = .returned [(3, 6000), (1, 1000)] ∧
    (run invExCfg { invExP with fails := fun t => t == 1 } [] 4 (List.replicate 5 chooseFirst)).status
      = .returned [(3, 5007)] := by decide

/-! ## at EVERY INSTANT of EVERY INTERRUPTED run (statement granularity, model M10)

`Model/Intr.lean` re-expresses the coordinator loop as a stream of primitives, one per Python statement
that changes modelled state. `mainAt … k` is the state after the first `k` primitives of the main loop's
stream — between the statements of `process_completed_tasks`, `complete_task`, `remove_results` included —
for EVERY `k`; `handlerAt … k ds m` the state after `m` further primitives of the `KeyboardInterrupt`
handler (`cancel`, drain along `ds`) entered at instant `k`; `secondAt … k ds m m2` after `m2` primitives of
the second handler (`cancel`, `stop`, one last processing round) entered at instant `m` of the first.
(Same definitions as in `Props/C02.lean`, `Props/C04.lean`.) The invariant `RI` of
`Proofs/IntrResults.lean` holds in all of them, and the transition fact `RT` between any two consecutive
instants, for every problem, configuration, cache pre-state, fuel, schedule and drain schedule; no
hypothesis.

What is and is not true between two loop heads (see the `example`s at the end):
* SAFETY (`held_is_yielded_…`): always.
* the "iff" of `results_value` is FALSE at some instants: between `releaseOne` (the last dependent left
  `task_to_pending_dependents[d]`) and `removeResult d` an unneeded result is still held;
* VALUE (`needed_is_held_…`): the model records `yield d` at `future_to_task.pop`, the statements
  `results_map[d] = …`, `task_results[d] = …`, `_set_result_meta` follow, then `complete_task(d)` removes `d`
  from `type_to_active_tasks`. While `d` is still active (at most the 4 instants after the pop in an
  uninterrupted run) the entry may be missing: it IS missing at the one instant right after the pop, and
  for ever if the interrupt falls exactly there (the handlers never resume the interrupted loop body; `d`
  then stays active for ever). Hence the hypothesis `d ∉ active`. It costs nothing for "never released
  while needed": that is `released_only_when_unneeded_…`, which has no such hypothesis.
* the second handler's `stop()` does not touch the results map: all statements hold there unchanged. -/

/-- state after the first `k` primitives of the main loop's stream (`k` beyond its end: the end) -/
abbrev mainAt (cfg : Config) (p : Problem) (store : Store) (fuel : Nat) (sched : List Choice) (k : Nat) : IS :=
  stateAt cfg p store fuel sched k

/-- state after `m` primitives of the first interrupt handler entered at instant `k` -/
abbrev handlerAt (cfg : Config) (p : Problem) (store : Store) (fuel : Nat) (sched : List Choice) (k : Nat)
    (ds : List Choice) (m : Nat) : IS :=
  runPrims cfg p ((handlerPrims cfg p (reqTids p) ds (mainAt cfg p store fuel sched k)).take m)
    (mainAt cfg p store fuel sched k)

/-- state after `m2` primitives of the second handler entered at instant `m` of the first -/
abbrev secondAt (cfg : Config) (p : Problem) (store : Store) (fuel : Nat) (sched : List Choice) (k : Nat)
    (ds : List Choice) (m m2 : Nat) : IS :=
  runPrims cfg p ((secondPrims cfg p (reqTids p) (handlerAt cfg p store fuel sched k ds m)).take m2)
    (handlerAt cfg p store fuel sched k ds m)

/-- the states of `interruptedRun` (at the interrupt, and final) are among these -/
theorem interruptedRun_states (cfg : Config) (p : Problem) (store : Store) (fuel : Nat)
    (sched ds : List Choice) (k : Nat) (k2 : Option Nat) :
    (∃ k', (interruptedRun cfg p store fuel sched k ds k2).atIntr = mainAt cfg p store fuel sched k') ∧
    ((∃ k', (interruptedRun cfg p store fuel sched k ds k2).final = mainAt cfg p store fuel sched k') ∨
     (∃ m, (interruptedRun cfg p store fuel sched k ds k2).final = handlerAt cfg p store fuel sched k ds m) ∨
     (∃ m m2, (interruptedRun cfg p store fuel sched k ds k2).final = secondAt cfg p store fuel sched k ds m m2)) :=
  interruptedRun_cases store fuel sched ds k k2

/-- (A) SAFETY at every instant of the main loop: whatever `results_map` holds after ANY number `k` of
    statements is a value that was really yielded for that task (in particular nothing is held for a task
    that was yielded as failed or died), and no key is held twice -/
theorem held_is_yielded_every_instant (cfg : Config) (p : Problem) (store : Store) (fuel : Nat)
    (sched : List Choice) (k : Nat) :
    let s := mainAt cfg p store fuel sched k
    (∀ d v, (d, v) ∈ s.rs.results →
      Ev.yield d (.ok v) ∈ s.rs.trace ∧ Ev.yield d .exc ∉ s.rs.trace ∧ Ev.yield d .died ∉ s.rs.trace) ∧
    (s.rs.results.map Prod.fst).Nodup :=
  (stateAt_RI store fuel sched k).heldSound

/-- … at every instant of the interrupt handler (cancel + drain) entered at any instant `k` -/
theorem held_is_yielded_every_instant_handler (cfg : Config) (p : Problem) (store : Store) (fuel : Nat)
    (sched : List Choice) (k : Nat) (ds : List Choice) (m : Nat) :
    let s := handlerAt cfg p store fuel sched k ds m
    (∀ d v, (d, v) ∈ s.rs.results →
      Ev.yield d (.ok v) ∈ s.rs.trace ∧ Ev.yield d .exc ∉ s.rs.trace ∧ Ev.yield d .died ∉ s.rs.trace) ∧
    (s.rs.results.map Prod.fst).Nodup :=
  (handlerStateAt_RI store fuel sched k ds m).heldSound

/-- … at every instant of the second handler (double interrupt at any `k`, `m`) -/
theorem held_is_yielded_every_instant_second (cfg : Config) (p : Problem) (store : Store) (fuel : Nat)
    (sched : List Choice) (k : Nat) (ds : List Choice) (m m2 : Nat) :
    let s := secondAt cfg p store fuel sched k ds m m2
    (∀ d v, (d, v) ∈ s.rs.results →
      Ev.yield d (.ok v) ∈ s.rs.trace ∧ Ev.yield d .exc ∉ s.rs.trace ∧ Ev.yield d .died ∉ s.rs.trace) ∧
    (s.rs.results.map Prod.fst).Nodup :=
  (secondStateAt_RI store fuel sched k ds m m2).heldSound

/-- every task is yielded at most once, at every instant of all three streams (what makes "the value
    `d` was yielded with" well defined) -/
theorem yielded_once_every_instant (cfg : Config) (p : Problem) (store : Store) (fuel : Nat)
    (sched : List Choice) (k : Nat) (ds : List Choice) (m m2 : Nat) :
    (yieldedOf (mainAt cfg p store fuel sched k).rs.trace).Nodup ∧
    (yieldedOf (handlerAt cfg p store fuel sched k ds m).rs.trace).Nodup ∧
    (yieldedOf (secondAt cfg p store fuel sched k ds m m2).rs.trace).Nodup :=
  ⟨(stateAt_RI store fuel sched k).yNd, (handlerStateAt_RI store fuel sched k ds m).yNd,
    (secondStateAt_RI store fuel sched k ds m m2).yNd⟩

/-- (B) VALUE at every instant of the main loop, with the condition of the loop-head theorem: a
    successfully yielded `d` that has left the active set (`complete_task(d)` has been entered) and still
    has an entry in `task_to_pending_dependents[d]` IS in the map with the value it was yielded with — a
    result is NEVER missing while a direct dependent still needs it, between the statements of
    `complete_task` / `remove_results` included -/
theorem needed_is_held_every_instant (cfg : Config) (p : Problem) (store : Store) (fuel : Nat)
    (sched : List Choice) (k : Nat) (d : Tid) (v : Val) :
    let s := mainAt cfg p store fuel sched k
    Ev.yield d (.ok v) ∈ s.rs.trace → d ∉ s.rs.ts.active → s.rs.ts.pendDependents d ≠ [] →
      (d, v) ∈ s.rs.results :=
  (stateAt_RI store fuel sched k).held d v

/-- … during the drain of the first handler, whatever instant `k` the interrupt fell on -/
theorem needed_is_held_every_instant_handler (cfg : Config) (p : Problem) (store : Store) (fuel : Nat)
    (sched : List Choice) (k : Nat) (ds : List Choice) (m : Nat) (d : Tid) (v : Val) :
    let s := handlerAt cfg p store fuel sched k ds m
    Ev.yield d (.ok v) ∈ s.rs.trace → d ∉ s.rs.ts.active → s.rs.ts.pendDependents d ≠ [] →
      (d, v) ∈ s.rs.results :=
  (handlerStateAt_RI store fuel sched k ds m).held d v

/-- … and in the last round after a second Ctrl-C (`stop()` does not touch the map) -/
theorem needed_is_held_every_instant_second (cfg : Config) (p : Problem) (store : Store) (fuel : Nat)
    (sched : List Choice) (k : Nat) (ds : List Choice) (m m2 : Nat) (d : Tid) (v : Val) :
    let s := secondAt cfg p store fuel sched k ds m m2
    Ev.yield d (.ok v) ∈ s.rs.trace → d ∉ s.rs.ts.active → s.rs.ts.pendDependents d ≠ [] →
      (d, v) ∈ s.rs.results :=
  (secondStateAt_RI store fuel sched k ds m m2).held d v

/-- (B) with "needed" read off the trace: some planned direct dependent `t` of `d` has no `yield` on
    record yet. All three streams. -/
theorem needed_is_held_trace_every_instant (cfg : Config) (p : Problem) (store : Store) (fuel : Nat)
    (sched : List Choice) (k : Nat) (ds : List Choice) (m m2 : Nat) (s : IS)
    (hs : s = mainAt cfg p store fuel sched k ∨ s = handlerAt cfg p store fuel sched k ds m ∨
      s = secondAt cfg p store fuel sched k ds m m2)
    (d : Tid) (v : Val) (t : Tid) (hy : Ev.yield d (.ok v) ∈ s.rs.trace) (hna : d ∉ s.rs.ts.active)
    (hd : d ∈ (plan cfg p store fuel).ddeps t) (hny : ∀ o, Ev.yield t o ∉ s.rs.trace) :
    (d, v) ∈ s.rs.results := by
  rcases hs with rfl | rfl | rfl
  · exact (stateAt_RI store fuel sched k).neededHeld d v t hy hna hd hny
  · exact (handlerStateAt_RI store fuel sched k ds m).neededHeld d v t hy hna hd hny
  · exact (secondStateAt_RI store fuel sched k ds m m2).neededHeld d v t hy hna hd hny

/-- `needed_spec` at every instant of all three streams: `task_to_pending_dependents[d]` lists only
    planned direct dependents of `d`, and at least all those that have not been yielded (the task whose
    `complete_task` is in progress, or was interrupted, may still be listed: that is the only difference to
    the loop-head equality) -/
theorem needed_spec_every_instant (cfg : Config) (p : Problem) (store : Store) (fuel : Nat)
    (sched : List Choice) (k : Nat) (ds : List Choice) (m m2 : Nat) (s : IS)
    (hs : s = mainAt cfg p store fuel sched k ∨ s = handlerAt cfg p store fuel sched k ds m ∨
      s = secondAt cfg p store fuel sched k ds m m2) (d t : Tid) :
    (t ∈ s.rs.ts.pendDependents d → d ∈ (plan cfg p store fuel).ddeps t) ∧
    (d ∈ (plan cfg p store fuel).ddeps t → (∀ o, Ev.yield t o ∉ s.rs.trace) → t ∈ s.rs.ts.pendDependents d) := by
  rcases hs with rfl | rfl | rfl
  · exact (stateAt_RI store fuel sched k).neededSpec d t
  · exact (handlerStateAt_RI store fuel sched k ds m).neededSpec d t
  · exact (secondStateAt_RI store fuel sched k ds m m2).neededSpec d t

/-- (C) whatever statement is executed at ANY instant `k` of the main loop: an entry `(d, v)` that is in
    `results_map` at instant `k` and not at instant `k + 1` had an empty `task_to_pending_dependents[d]`,
    and every planned direct dependent of `d` had been yielded — nobody needed it any more -/
theorem released_only_when_unneeded_every_instant (cfg : Config) (p : Problem) (store : Store) (fuel : Nat)
    (sched : List Choice) (k : Nat) (d : Tid) (v : Val)
    (hd : (d, v) ∈ (mainAt cfg p store fuel sched k).rs.results)
    (hnot : (d, v) ∉ (mainAt cfg p store fuel sched (k + 1)).rs.results) :
    (mainAt cfg p store fuel sched k).rs.ts.pendDependents d = [] ∧
    ∀ t, d ∈ (plan cfg p store fuel).ddeps t → ∃ o, Ev.yield t o ∈ (mainAt cfg p store fuel sched k).rs.trace :=
  (stateAt_RI store fuel sched k).released (stateAt_RT store fuel sched k) d v hd hnot

/-- … between any two consecutive instants of the first handler -/
theorem released_only_when_unneeded_every_instant_handler (cfg : Config) (p : Problem) (store : Store) (fuel : Nat)
    (sched : List Choice) (k : Nat) (ds : List Choice) (m : Nat) (d : Tid) (v : Val)
    (hd : (d, v) ∈ (handlerAt cfg p store fuel sched k ds m).rs.results)
    (hnot : (d, v) ∉ (handlerAt cfg p store fuel sched k ds (m + 1)).rs.results) :
    (handlerAt cfg p store fuel sched k ds m).rs.ts.pendDependents d = [] ∧
    ∀ t, d ∈ (plan cfg p store fuel).ddeps t →
      ∃ o, Ev.yield t o ∈ (handlerAt cfg p store fuel sched k ds m).rs.trace :=
  (handlerStateAt_RI store fuel sched k ds m).released (handlerStateAt_RT store fuel sched k ds m) d v hd hnot

/-- … and of the second handler -/
theorem released_only_when_unneeded_every_instant_second (cfg : Config) (p : Problem) (store : Store) (fuel : Nat)
    (sched : List Choice) (k : Nat) (ds : List Choice) (m m2 : Nat) (d : Tid) (v : Val)
    (hd : (d, v) ∈ (secondAt cfg p store fuel sched k ds m m2).rs.results)
    (hnot : (d, v) ∉ (secondAt cfg p store fuel sched k ds m (m2 + 1)).rs.results) :
    (secondAt cfg p store fuel sched k ds m m2).rs.ts.pendDependents d = [] ∧
    ∀ t, d ∈ (plan cfg p store fuel).ddeps t →
      ∃ o, Ev.yield t o ∈ (secondAt cfg p store fuel sched k ds m m2).rs.trace :=
  (secondStateAt_RI store fuel sched k ds m m2).released (secondStateAt_RT store fuel sched k ds m m2) d v hd hnot

/-- (C) on the observable record: every `remove_results(rem)` on record, in the trace of any state of
    the three streams, names only tasks all of whose planned direct dependents had been yielded before -/
theorem remove_event_only_unneeded_every_instant (cfg : Config) (p : Problem) (store : Store) (fuel : Nat)
    (sched : List Choice) (k : Nat) (ds : List Choice) (m m2 : Nat) (pre post : List Ev) (rem left : List Tid)
    (h : (mainAt cfg p store fuel sched k).rs.trace = pre ++ Ev.remove rem left :: post ∨
         (handlerAt cfg p store fuel sched k ds m).rs.trace = pre ++ Ev.remove rem left :: post ∨
         (secondAt cfg p store fuel sched k ds m m2).rs.trace = pre ++ Ev.remove rem left :: post) :
    ∀ d ∈ rem, ∀ t, d ∈ (plan cfg p store fuel).ddeps t → ∃ o, Ev.yield t o ∈ pre := by
  intro d hd t ht
  rw [← mem_yieldedOf]
  rcases h with h | h | h
  · exact (stateAt_RI store fuel sched k).remH pre _ post h d hd t ht
  · exact (handlerStateAt_RI store fuel sched k ds m).remH pre _ post h d hd t ht
  · exact (secondStateAt_RI store fuel sched k ds m m2).remH pre _ post h d hd t ht

/-- (C) results of requested tasks are captured for the return value BEFORE release: whatever statement
    is executed at any instant of the three streams, a requested task's entry that leaves `results_map` in
    that step is already in `task_results` -/
theorem captured_before_release_every_instant (cfg : Config) (p : Problem) (store : Store) (fuel : Nat)
    (sched : List Choice) (k : Nat) (ds : List Choice) (m m2 : Nat) (s s' : IS)
    (hs : (s = mainAt cfg p store fuel sched k ∧ s' = mainAt cfg p store fuel sched (k + 1)) ∨
      (s = handlerAt cfg p store fuel sched k ds m ∧ s' = handlerAt cfg p store fuel sched k ds (m + 1)) ∨
      (s = secondAt cfg p store fuel sched k ds m m2 ∧ s' = secondAt cfg p store fuel sched k ds m (m2 + 1)))
    (d : Tid) (v : Val) (hr : d ∈ reqTids p) (hd : (d, v) ∈ s.rs.results) (hnot : (d, v) ∉ s'.rs.results) :
    (d, v) ∈ s.rs.taskResults := by
  rcases hs with ⟨rfl, rfl⟩ | ⟨rfl, rfl⟩ | ⟨rfl, rfl⟩
  · exact (stateAt_RT store fuel sched k d v hd hnot).2 hr
  · exact (handlerStateAt_RT store fuel sched k ds m d v hd hnot).2 hr
  · exact (secondStateAt_RT store fuel sched k ds m m2 d v hd hnot).2 hr

/-- `task_results` at every instant of all three streams: it holds only values that were really yielded,
    and it holds the value of every requested task that was yielded successfully and has left the
    active set -/
theorem captured_every_instant (cfg : Config) (p : Problem) (store : Store) (fuel : Nat)
    (sched : List Choice) (k : Nat) (ds : List Choice) (m m2 : Nat) (s : IS)
    (hs : s = mainAt cfg p store fuel sched k ∨ s = handlerAt cfg p store fuel sched k ds m ∨
      s = secondAt cfg p store fuel sched k ds m m2) (d : Tid) (v : Val) :
    ((d, v) ∈ s.rs.taskResults → Ev.yield d (.ok v) ∈ s.rs.trace) ∧
    (d ∈ reqTids p → Ev.yield d (.ok v) ∈ s.rs.trace → d ∉ s.rs.ts.active → (d, v) ∈ s.rs.taskResults) := by
  rcases hs with rfl | rfl | rfl
  · exact ⟨(stateAt_RI store fuel sched k).capY d v, (stateAt_RI store fuel sched k).cap d v⟩
  · exact ⟨(handlerStateAt_RI store fuel sched k ds m).capY d v, (handlerStateAt_RI store fuel sched k ds m).cap d v⟩
  · exact ⟨(secondStateAt_RI store fuel sched k ds m m2).capY d v,
      (secondStateAt_RI store fuel sched k ds m m2).cap d v⟩

/-- SAFETY and VALUE for `interruptedRun` itself: the state at the interrupt and the final state, for
    every interrupt instant `k`, drain schedule `ds` and optional second interrupt instant `k2` -/
theorem results_sound_interrupted (cfg : Config) (p : Problem) (store : Store) (fuel : Nat)
    (sched ds : List Choice) (k : Nat) (k2 : Option Nat) (s : IS)
    (hs : s = (interruptedRun cfg p store fuel sched k ds k2).atIntr ∨
      s = (interruptedRun cfg p store fuel sched k ds k2).final) :
    (∀ d v, (d, v) ∈ s.rs.results →
      Ev.yield d (.ok v) ∈ s.rs.trace ∧ Ev.yield d .exc ∉ s.rs.trace ∧ Ev.yield d .died ∉ s.rs.trace) ∧
    (s.rs.results.map Prod.fst).Nodup ∧
    (∀ d v, Ev.yield d (.ok v) ∈ s.rs.trace → d ∉ s.rs.ts.active → s.rs.ts.pendDependents d ≠ [] →
      (d, v) ∈ s.rs.results) ∧
    (∀ d v t, Ev.yield d (.ok v) ∈ s.rs.trace → d ∉ s.rs.ts.active → d ∈ (plan cfg p store fuel).ddeps t →
      (∀ o, Ev.yield t o ∉ s.rs.trace) → (d, v) ∈ s.rs.results) := by
  have key : RI (plan cfg p store fuel) (reqTids p) s := by
    obtain ⟨⟨k', h1⟩, h2⟩ := interruptedRun_states cfg p store fuel sched ds k k2
    rcases hs with rfl | rfl
    · rw [h1]; exact stateAt_RI store fuel sched k'
    · rcases h2 with ⟨k'', h2⟩ | ⟨m, h2⟩ | ⟨m, m2, h2⟩ <;> rw [h2]
      · exact stateAt_RI store fuel sched k''
      · exact handlerStateAt_RI store fuel sched k ds m
      · exact secondStateAt_RI store fuel sched k ds m m2
  exact ⟨key.heldSound.1, key.heldSound.2, key.held, fun d v t => key.neededHeld d v t⟩

/-- (D) at the loop head the whole main stream ends in, the two directions close to the equality of
    `results_value` (every loop head is the end of the stream of a prefix schedule) -/
theorem loop_head_exact (cfg : Config) (p : Problem) (store : Store) (fuel : Nat) (sched : List Choice) :
    let s := mainAt cfg p store fuel sched (mainOf cfg p store fuel sched).length
    s.rs.status = .running → ∀ d v,
      ((d, v) ∈ s.rs.results ↔ (Ev.yield d (.ok v) ∈ s.rs.trace ∧ s.rs.ts.pendDependents d ≠ [])) := by
  intro s hrun d v
  have e : s.rs = runLoop cfg p (reqTids p) sched (initRS cfg p store fuel) := by
    show (stateAt cfg p store fuel sched (mainOf cfg p store fuel sched).length).rs = _
    simp only [stateAt, List.take_length]
    exact run_refine store fuel sched
  rw [e] at hrun ⊢
  exact results_value cfg p store fuel sched hrun d v

/-! non-vacuity at instants strictly inside `process_completed_tasks`, and in interrupted runs (`exP`:
    tasks 1 and 2 need task 0; fork, one worker). The main stream has 45 primitives: … 35 consumeResults,
    36 popFuture 2, 37 storeResult 2 2, 38 capture 2 2, 39 markInstances 2, 40 removeActive 2,
    41 releaseOne 2 0, 42 removeResult 0, 43 removeResult 2, 44 removeDone [0, 2]. -/
def exCfgI : Config := { backend := .fork, maxWorkers := 1, contOnFail := true, bust := false }
def exAllI : List Choice := List.replicate 4 ⟨fun _ => true⟩

/-- k = 42, strictly inside `process_completed_tasks` (inside `remove_results`): the last dependent has
    left `task_to_pending_dependents[0]`, every dependent of 0 has been yielded, and the result of 0 is
    STILL held — the "iff" of the loop-head theorem is false here, only the two directions hold. One
    statement later (k = 43) it is gone; the requested 2 was captured (k = 39) before it leaves (k = 44) -/
example : (mainOf exCfgI exP [] 4 exAllI).length = 45 ∧
    (mainAt exCfgI exP [] 4 exAllI 42).rs.results = [(2, 2), (0, 0)] ∧
    (mainAt exCfgI exP [] 4 exAllI 42).rs.ts.pendDependents 0 = [] ∧
    (mainAt exCfgI exP [] 4 exAllI 42).rs.status = .running ∧
    yieldedOf (mainAt exCfgI exP [] 4 exAllI 42).rs.trace = [0, 1, 2] ∧
    (mainAt exCfgI exP [] 4 exAllI 43).rs.results = [(2, 2)] ∧
    (mainAt exCfgI exP [] 4 exAllI 39).rs.taskResults = [(2, 2), (1, 1)] ∧
    (mainAt exCfgI exP [] 4 exAllI 44).rs.results = [] := by decide

/-- k = 8, right after `future_to_task.pop` of task 0 (the model records the `yield` there): the value
    is not stored yet although 1 and 2 need it; 0 is still active — the reason for `d ∉ active` in
    `needed_is_held_every_instant`. At k = 11 (`removeActive 0` done, mid-`complete_task`) it is held -/
example : Ev.yield 0 (.ok 0) ∈ (mainAt exCfgI exP [] 4 exAllI 8).rs.trace ∧
    (mainAt exCfgI exP [] 4 exAllI 8).rs.results = [] ∧
    (mainAt exCfgI exP [] 4 exAllI 8).rs.ts.pendDependents 0 = [1, 2] ∧
    (mainAt exCfgI exP [] 4 exAllI 8).rs.ts.active = [0] ∧
    (mainAt exCfgI exP [] 4 exAllI 11).rs.ts.active = [] ∧
    (mainAt exCfgI exP [] 4 exAllI 11).rs.results = [(0, 0)] := by decide

/-- single interrupt at k = 20 (the worker of 1 is running): the drain completes 1 AFTER the interrupt,
    its result is stored, captured and released again (nobody needs it), while the result of 0 stays:
    2 still needs it -/
example :
    (interruptedRun exCfgI exP [] 4 exAllI 20 exAllI none).outcome = .interrupted ∧
    (interruptedRun exCfgI exP [] 4 exAllI 20 exAllI none).atIntr.rs.results = [(0, 0)] ∧
    (interruptedRun exCfgI exP [] 4 exAllI 20 exAllI none).final.rs.results = [(0, 0)] ∧
    (interruptedRun exCfgI exP [] 4 exAllI 20 exAllI none).final.rs.taskResults = [(1, 1)] ∧
    (interruptedRun exCfgI exP [] 4 exAllI 20 exAllI none).final.rs.ts.pendDependents 0 = [2] ∧
    Ev.yield 1 (.ok 1) ∈ (interruptedRun exCfgI exP [] 4 exAllI 20 exAllI none).final.rs.trace ∧
    Ev.remove [1] [0] ∈ (interruptedRun exCfgI exP [] 4 exAllI 20 exAllI none).final.rs.trace := by decide

/-- interrupt at k = 8 (between the pop of 0 and `results_map[0] = …`): the handler never resumes the loop
    body, so 0 stays active and its value is never stored, although 1 and 2 are still listed as needing
    it: the hypothesis `d ∉ active` cannot be dropped in the handler's stream -/
example :
    (interruptedRun exCfgI exP [] 4 exAllI 8 exAllI none).outcome = .interrupted ∧
    (interruptedRun exCfgI exP [] 4 exAllI 8 exAllI none).final.rs.results = [] ∧
    (interruptedRun exCfgI exP [] 4 exAllI 8 exAllI none).final.rs.ts.active = [0] ∧
    (interruptedRun exCfgI exP [] 4 exAllI 8 exAllI none).final.rs.ts.pendDependents 0 = [1, 2] ∧
    Ev.yield 0 (.ok 0) ∈ (interruptedRun exCfgI exP [] 4 exAllI 8 exAllI none).final.rs.trace := by decide

/-- double interrupt (k = 20, second one after 3 primitives of the first handler: 1 popped and stored, not
    yet captured): the second handler cancels, stops and processes nothing more; both results stay held,
    the requested 1 was never captured (it is still active) -/
example :
    (interruptedRun exCfgI exP [] 4 exAllI 20 exAllI (some 3)).outcome = .interrupted ∧
    (interruptedRun exCfgI exP [] 4 exAllI 20 exAllI (some 3)).final.rs.results = [(1, 1), (0, 0)] ∧
    (interruptedRun exCfgI exP [] 4 exAllI 20 exAllI (some 3)).final.rs.taskResults = [] ∧
    (interruptedRun exCfgI exP [] 4 exAllI 20 exAllI (some 3)).final.rs.ts.active = [1] := by decide

/-- the theorems applied to these runs: hypotheses satisfiable, conclusions about real entries -/
example : (0, 0) ∈ (interruptedRun exCfgI exP [] 4 exAllI 20 exAllI none).final.rs.results :=
  (results_sound_interrupted exCfgI exP [] 4 exAllI exAllI 20 none _ (Or.inr rfl)).2.2.2 0 0 2
    (by decide) (by decide) (by decide)
    (fun o h => by
      have h2 := (mem_yieldedOf _ 2).mpr ⟨o, h⟩
      revert h2
      decide)

/-- k = 27, between `releaseOne 1 0` and `removeResult 1` of `complete_task(1)`: 0 is held because 2 needs it -/
example : (0, 0) ∈ (mainAt exCfgI exP [] 4 exAllI 27).rs.results :=
  needed_is_held_every_instant exCfgI exP [] 4 exAllI 27 0 0 (by decide) (by decide) (by decide)

/-- the step 43 → 44 (`removeResult 2`) drops the entry of the requested task 2: it was captured before -/
example : (2, 2) ∈ (mainAt exCfgI exP [] 4 exAllI 43).rs.taskResults :=
  captured_before_release_every_instant exCfgI exP [] 4 exAllI 43 [] 0 0 _ _ (Or.inl ⟨rfl, rfl⟩) 2 2
    (by decide) (by decide) (by decide)

example : (mainAt exCfgI exP [] 4 exAllI 42).rs.ts.pendDependents 0 = [] ∧
    ∀ t, 0 ∈ (plan exCfgI exP [] 4).ddeps t → ∃ o, Ev.yield t o ∈ (mainAt exCfgI exP [] 4 exAllI 42).rs.trace :=
  released_only_when_unneeded_every_instant exCfgI exP [] 4 exAllI 42 0 0 (by decide) (by decide)

/-- the diamond (`invExP`: 3 needs 1 and 2, both need 0; 62 primitives). k = 42, inside `remove_results`
    of `complete_task(2)`: 0 is unneeded and still held next to 1 and 2, which 3 needs. An interrupt at
    k = 12, in the middle of `complete_task(0)` (`unblockOne 0 1` done, `unblockOne 0 2` not yet): the drain
    has nothing to wait for, the result of 0 stays held, 1 and 2 are still listed as needing it -/
example :
    (mainAt invExCfg invExP [] 4 (List.replicate 5 chooseFirst) 42).rs.results = [(2, 2000), (1, 1000), (0, 0)] ∧
    (mainAt invExCfg invExP [] 4 (List.replicate 5 chooseFirst) 42).rs.ts.pendDependents 0 = [] ∧
    (mainAt invExCfg invExP [] 4 (List.replicate 5 chooseFirst) 42).rs.ts.pendDependents 1 = [3] ∧
    (interruptedRun invExCfg invExP [] 4 (List.replicate 5 chooseFirst) 12 (List.replicate 5 chooseFirst) none).hit = true ∧
    (interruptedRun invExCfg invExP [] 4 (List.replicate 5 chooseFirst) 12 (List.replicate 5 chooseFirst) none).final.rs.results
      = [(0, 0)] ∧
    (interruptedRun invExCfg invExP [] 4 (List.replicate 5 chooseFirst) 12 (List.replicate 5 chooseFirst)
      none).final.rs.ts.pendDependents 0 = [1, 2] := by
  decide

end Lt.Props.C17
