import LabtechModel.Proofs.Submit
import LabtechModel.Proofs.InvMain
/-!
# C17 — Intermediate results live exactly as long as a dependent needs them

Proved here:
* `remove_results_exact`: `remove_results` drops exactly the named tasks' results and skips, without
  stopping, names that have no stored result (the failed ones);
* `complete_reports_unneeded`: `complete_task` reports a dependency as removable exactly when the
  completing task was its last pending dependent, and the task itself exactly when nothing is waiting
  for it;
* `captured_before_release`: a requested task's value is captured before its result can be released
  in the same step;
* `result_kept_while_needed`: handling a yield never drops a result that `complete_task` did not report.
Whole runs (every problem, configuration, cache pre-state, fuel and schedule; no hypothesis; from
the master invariant of `Proofs/InvLoop.lean`), at every reachable loop head with status running:
* `results_iff_needed`: the runner holds a result for `d` iff `d` was yielded successfully and some
  task that directly depends on `d` has not been yielded yet; the held value is the yielded one
  (`results_value`); keys are duplicate-free;
* `needed_spec`: `pendDependents d` lists exactly the planned direct dependents of `d` that have not
  been yielded;
* `empty_at_return`: when `run_tasks` returns normally the runner holds no result at all (also when
  tasks failed, under `continue_on_failure`).
-/
namespace Lt.Props.C17
open Lt

theorem remove_results_exact (res : List (Tid × Val)) (ts : List Tid) (kv : Tid × Val) :
    kv ∈ removeResults res ts ↔ kv ∈ res ∧ kv.1 ∉ ts := by
  simp [removeResults, List.mem_filter]

theorem release_reports (t : Tid) : ∀ (ds : List Tid) (pdt pdt' : Tid → List Tid) (rem : List Tid),
    release t ds pdt = some (pdt', rem) → ∀ d, d ∈ rem → d ∈ ds := by
  intro ds
  induction ds with
  | nil => intro pdt pdt' rem h d hd; simp only [release, Option.some.injEq, Prod.mk.injEq] at h; simp [← h.2] at hd
  | cons x xs ih =>
    intro pdt pdt' rem h d hd
    simp only [release] at h
    cases hr : setRemove (pdt x) t with
    | none => simp [hr] at h
    | some l =>
      simp only [hr] at h
      cases hrec : release t xs (upd pdt x l) with
      | none => simp [hrec] at h
      | some pr =>
        obtain ⟨pdt2, rem2⟩ := pr
        simp only [hrec, Option.some.injEq, Prod.mk.injEq] at h
        obtain ⟨_, h2⟩ := h
        subst h2
        split at hd
        · rcases List.mem_cons.mp hd with h1 | h1
          · subst h1; exact List.mem_cons_self
          · exact List.mem_cons_of_mem _ (ih _ _ _ hrec d h1)
        · exact List.mem_cons_of_mem _ (ih _ _ _ hrec d hd)

/-- only direct dependencies of the completing task, and the task itself, are ever reported removable -/
theorem complete_reports_unneeded (s s' : TS) (t : Tid) (rem : List Tid)
    (h : completeTask s t = some (s', rem)) (d : Tid) (hd : d ∈ rem) :
    d ∈ s.ddeps t ∨ (d = t ∧ s'.pendDependents t = []) := by
  obtain ⟨act, pd, pdt, rem0, _, _, hrel, hs, hrem⟩ := completeTask_some s s' t rem h
  subst hs
  subst hrem
  split at hd
  · next hemp =>
    rcases List.mem_append.mp hd with h1 | h1
    · left; exact release_reports t _ _ _ _ hrel d h1
    · right; simp only [List.mem_singleton] at h1
      refine ⟨h1, ?_⟩
      simpa using hemp
  · left; exact release_reports t _ _ _ _ hrel d hd

theorem captured_before_release (cfg : Config) (req : List Tid) (rs : RS) (t : Tid) (v : Val) (ht : t ∈ req)
    (hst : (processYield cfg req rs t (.ok v)).status = .running) :
    lookup t (processYield cfg req rs t (.ok v)).taskResults = some v := by
  simp only [processYield, ht, if_true] at hst ⊢
  split
  · next hc => simp [hc] at hst
  · simp [lookup]

theorem result_kept_while_needed (cfg : Config) (req : List Tid) (rs : RS) (t : Tid) (v : Val)
    (s' : TS) (rem : List Tid)
    (hct : completeTask rs.ts t = some (s', rem)) (d : Tid) (w : Val) (hd : (d, w) ∈ rs.results)
    (hne : d ≠ t) (hkeep : d ∉ rem) :
    (d, w) ∈ (processYield cfg req rs t (.ok v)).results := by
  simp only [processYield, hct]
  simp only [removeResults, List.mem_filter, List.mem_cons, Prod.mk.injEq]
  refine ⟨Or.inr ⟨hd, by simpa using hne⟩, by simpa using hkeep⟩

def exP : Problem where
  tidOf := fun i => i
  children := fun i => if i = 1 ∨ i = 2 then [0] else []
  requested := [1, 2]
  ty := fun _ => 0
  maxPar := fun _ => some 1
  cacheable := fun _ => false
  fails := fun _ => false
  dies := fun _ => false
  behave := fun t _ => some t

/-- result of 0 is kept after its first dependent finished, released after the second; empty at return -/
example :
    let all : Choice := ⟨fun _ => true⟩
    let cfg : Config := { backend := .fork, maxWorkers := 1, contOnFail := true, bust := false }
    (runLoop cfg exP [1, 2] [all, all] (initRS cfg exP [] 4)).results = [(0, 0)] ∧
    (runLoop cfg exP [1, 2] [all, all, all] (initRS cfg exP [] 4)).results = [] ∧
    (run cfg exP [] 4 [all, all, all, all]).results = [] ∧
    (run cfg exP [] 4 [all, all, all, all]).status = .returned [(1, 1), (2, 2)] := by decide

/-! ## whole runs -/

/-- the value held for `d` is the value `d` was yielded with, and it is held exactly while needed -/
theorem results_value (cfg : Config) (p : Problem) (store : Store) (fuel : Nat) (sched : List Choice) :
    let rs := runLoop cfg p (reqTids p) sched (initRS cfg p store fuel)
    rs.status = .running → ∀ d v,
      ((d, v) ∈ rs.results ↔ (Ev.yield d (.ok v) ∈ rs.trace ∧ rs.ts.pendDependents d ≠ [])) :=
  fun hrun d v => loopHead_results cfg p store fuel sched hrun d v

theorem results_iff_needed (cfg : Config) (p : Problem) (store : Store) (fuel : Nat) (sched : List Choice) :
    let rs := runLoop cfg p (reqTids p) sched (initRS cfg p store fuel)
    rs.status = .running →
      (∀ d, (∃ v, (d, v) ∈ rs.results) ↔ (d ∈ okYielded rs ∧ rs.ts.pendDependents d ≠ [])) ∧
      (rs.results.map Prod.fst).Nodup := by
  intro rs hrun
  refine ⟨?_, ((reach_all cfg p store fuel sched).2 hrun).resNd⟩
  intro d
  simp only [okYielded, mem_okYieldedOf]
  constructor
  · rintro ⟨v, hv⟩
    have := (loopHead_results cfg p store fuel sched hrun d v).mp hv
    exact ⟨⟨v, this.1⟩, this.2⟩
  · rintro ⟨⟨v, hv⟩, hne⟩
    exact ⟨v, (loopHead_results cfg p store fuel sched hrun d v).mpr ⟨hv, hne⟩⟩

/-- who still needs `d`: the planned direct dependents of `d` that have not been yielded -/
theorem needed_spec (cfg : Config) (p : Problem) (store : Store) (fuel : Nat) (sched : List Choice) (d t : Tid) :
    let rs := runLoop cfg p (reqTids p) sched (initRS cfg p store fuel)
    t ∈ rs.ts.pendDependents d ↔ (d ∈ (plan cfg p store fuel).ddeps t ∧ t ∉ yielded rs) :=
  loopHead_pendDependents cfg p store fuel sched d t

theorem empty_at_return (cfg : Config) (p : Problem) (store : Store) (fuel : Nat) (sched : List Choice)
    (r : List (Tid × Val)) (h : (run cfg p store fuel sched).status = .returned r) :
    (run cfg p store fuel sched).results = [] :=
  run_empty_at_return cfg p store fuel sched r h

/-- non-vacuity: after two waits of the diamond run, 0 is still held (2 needs it) together with 1
    (3 needs it); a failed task holds nothing; at return nothing is held -/
example :
    let rs := runLoop invExCfg invExP (reqTids invExP) [chooseFirst, chooseFirst] (initRS invExCfg invExP [] 4)
    rs.status = .running ∧ rs.results = [(1, 1000), (0, 0)] ∧ rs.ts.pendDependents 0 = [2] ∧
    okYielded rs = [0, 1] ∧
    (run invExCfg invExP [] 4 (List.replicate 5 chooseFirst)).status = .returned [(3, 6000), (1, 1000)] ∧
    (run invExCfg { invExP with fails := fun t => t == 1 } [] 4 (List.replicate 5 chooseFirst)).status
      = .returned [(3, 5007)] := by decide

end Lt.Props.C17
