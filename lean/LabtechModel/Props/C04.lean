import LabtechModel.Proofs.Workers
import LabtechModel.Proofs.Plan
/-!
# C04 — Per-type and global concurrency limits are never exceeded

Every statement is closed under: every problem (DAG, instances, types, limits, behaviours, failing and
dying tasks), every configuration (backend, `max_workers`, `continue_on_failure`, `bust_cache`), every
cache pre-state and every schedule (which workers' outcomes become visible in which polling round,
several per round included).  The states `runLoop … sched …` for all `sched` are exactly the states at
the loop head of `TaskCoordinator.run`; `submitAll … (readyTasks …)` of such a state is the state
between the submit phase and `runner.wait`, where the in-flight sets are largest.
-/
namespace Lt.Props.C04
open Lt

/-- state at the head of the coordinator loop after the polling rounds in `sched` -/
def loopState (cfg : Config) (p : Problem) (store : Store) (fuel : Nat) (sched : List Choice) : RS :=
  runLoop cfg p (reqTids p) sched (initRS cfg p store fuel)

/-- state between the submit phase and the next `runner.wait` -/
def afterSubmit (cfg : Config) (p : Problem) (store : Store) (fuel : Nat) (sched : List Choice) : RS :=
  let rs := loopState cfg p store fuel sched
  submitAll cfg p (readyTasks p rs.ts) rs

theorem init_limit (cfg : Config) (p : Problem) (store : Store) (fuel : Nat) :
    LimitOK p (initRS cfg p store fuel).ts.active := by
  intro T L _
  simp [initRS, plan_active, typeCount]

/-- per-type limit at every loop head: submitted-and-unfinished tasks of a type never exceed
    the type's `max_parallel` -/
theorem type_limit_loop_head (cfg : Config) (p : Problem) (store : Store) (fuel : Nat)
    (sched : List Choice) (T L : Nat) (hL : p.maxPar T = some L) :
    typeCount p (loopState cfg p store fuel sched).ts.active T ≤ L :=
  runLoop_limit cfg p (reqTids p) sched _ (init_limit cfg p store fuel) T L hL

/-- per-type limit right after the submit phase (the maximum of the in-flight set) -/
theorem type_limit_after_submit (cfg : Config) (p : Problem) (store : Store) (fuel : Nat)
    (sched : List Choice) (T L : Nat) (hL : p.maxPar T = some L) :
    typeCount p (afterSubmit cfg p store fuel sched).ts.active T ≤ L :=
  submitAll_limit cfg p _ (runLoop_limit cfg p (reqTids p) sched _ (init_limit cfg p store fuel)) T L hL

/-- per-type limit in the final state of a whole run -/
theorem type_limit_run (cfg : Config) (p : Problem) (store : Store) (fuel : Nat)
    (sched : List Choice) (T L : Nat) (hL : p.maxPar T = some L) :
    typeCount p (run cfg p store fuel sched).ts.active T ≤ L := by
  have h := type_limit_loop_head cfg p store fuel sched T L hL
  simp only [run, loopState] at *
  simp only [finish]
  split
  · split <;> exact h
  · exact h

/-- global limit: the executor never runs more than `max_workers` worker processes -/
theorem worker_limit_loop_head (cfg : Config) (p : Problem) (store : Store) (fuel : Nat)
    (sched : List Choice) :
    (loopState cfg p store fuel sched).running.length ≤ cfg.maxWorkers :=
  runLoop_workers cfg p (reqTids p) sched _ (by simp [WorkersOK, initRS])

theorem worker_limit_after_submit (cfg : Config) (p : Problem) (store : Store) (fuel : Nat)
    (sched : List Choice) :
    (afterSubmit cfg p store fuel sched).running.length ≤ cfg.maxWorkers :=
  submitAll_workers cfg p _ _ (worker_limit_loop_head cfg p store fuel sched)

/-- `_start_processes` tops up to the limit and never beyond, from any executor state -/
theorem start_processes_tops_up (cfg : Config) (rs : RS) (h : rs.running.length ≤ cfg.maxWorkers) :
    (startProcesses cfg rs).running.length = min cfg.maxWorkers (rs.running.length + rs.queued.length) := by
  rw [startProcesses_running_length]; omega

/-- the serial backend has no worker process at all: tasks execute in the caller, inside `wait`,
    one per call -/
theorem serial_no_worker (cfg : Config) (p : Problem) (store : Store) (fuel : Nat)
    (sched : List Choice) (hs : cfg.backend = .serial) :
    (loopState cfg p store fuel sched).running = [] := by
  unfold loopState
  exact runLoop_inv cfg p (reqTids p) (fun rs => rs.running = [])
    (fun c rs h => iteration_serial_running cfg p _ c rs hs h) sched _ (by simp [initRS])

/-- one serial `wait` executes at most one submission (the head of the deque) -/
theorem serial_one_per_wait (cfg : Config) (p : Problem) (req : List Tid) (rs : RS) :
    (waitSerial cfg p req rs).queued = rs.queued.tail := by
  simp only [waitSerial]
  split
  · next h => simp [h]
  · next j rest h => rw [processYield_queued]; simp [h]

/-! non-vacuity: a concrete problem in which the limits bite -/
def exP : Problem where
  tidOf := fun i => i
  children := fun _ => []
  requested := [0, 1, 2]
  ty := fun _ => 0
  maxPar := fun _ => some 2
  cacheable := fun _ => false
  fails := fun _ => false
  dies := fun _ => false
  behave := fun t _ => some t
def exCfg : Config := { backend := .fork, maxWorkers := 1, contOnFail := true, bust := false }

example : exP.maxPar 0 = some 2 ∧
    typeCount exP (afterSubmit exCfg exP [] 4 []).ts.active 0 = 2 ∧
    (afterSubmit exCfg exP [] 4 []).running.length = 1 ∧
    (afterSubmit exCfg exP [] 4 []).queued.length = 1 ∧
    (afterSubmit exCfg exP [] 4 []).ts.pending = [2] := by decide

end Lt.Props.C04
