import LabtechModel.Proofs.Workers
import LabtechModel.Proofs.Plan
import LabtechModel.Proofs.IntrLimitW
import LabtechModel.Proofs.IntrLimitS
/-!
# C04 — Per-type and global concurrency limits are never exceeded

Every statement is closed under: every problem (DAG, instances, types, limits, behaviours, failing and
dying tasks), every configuration (backend, `max_workers`, `continue_on_failure`, `bust_cache`), every
cache pre-state and every schedule (which workers' outcomes become visible in which polling round,
several per round included).

Part 1 (coarse model `Lt.run`, one step = one loop iteration).  The states `runLoop … sched …` for all
`sched` are exactly the states at the loop head of `TaskCoordinator.run`; `submitAll … (readyTasks …)`
of such a state is the state between the submit phase and `runner.wait`, where the in-flight sets are
largest.

Part 2 ("at no instant", statement-level model M10, `Model/Intr.lean`; `IntrRefine.lean` proves that
executing all primitives of an iteration IS the coarse iteration).  `mainAt … k` is the state after the
first `k` primitives (= Python statements that change modelled state) of the main loop's stream, for
EVERY `k`; `handlerAt … k ds m` the state after `m` further primitives of the `KeyboardInterrupt`
handler (`cancel`, drain along `ds`) entered at instant `k`; `secondAt … k ds m m2` after `m2`
primitives of the second handler (`cancel`, `stop`, one more `process_completed_tasks`) entered by a
second interrupt at instant `m` of the first. In every such state
* `type_limit_every_instant…`: no type has more active (submitted-and-unfinished) tasks than its
  `max_parallel` — also in the middle of the submit phase, whose ready list was computed from the
  loop-head state;
* `worker_limit_every_instant…`: at most `max_workers` worker processes are live (`alive`: started,
  not yet reported / found dead / terminated), and `_running_id_to_future_and_process` (`running` +
  `zombies`) has at most `max_workers` entries. Between `process.start()` and the registration in the
  running map a live worker is in no map: there `alive` exceeds the map's size by one
  (`worker_window_example`), and still `alive ≤ max_workers`, because `start_count` was computed from
  the map before anything was started. No schedule, interrupt instant or drain makes `alive` exceed
  `max_workers`: no finding here;
* `serial_one_at_a_time_every_instant…`: the serial backend never has a worker process nor a running
  entry; the only submission in execution is the one popped into `cur` (an `Option`), executed by the
  `serialRun` primitive inside `wait`, in the caller; and on the observable trace
  (`serial_in_flight_every_instant…`) the number of `start` records never exceeds the number of
  `yield` records by more than one: at most one task has been started and not yet handed back.
Granularity: a worker counts as live until the coordinator consumes its report (or finds it dead /
terminates it); the OS process that has already put its result on the queue and is exiting is not
modelled separately.
-/
namespace Lt.Props.C04
open Lt

/-- state at the head of the coordinator loop after the polling rounds in `sched` -/
def loopState (cfg : Config) (p : Problem) (store : Store) (fuel : Nat) (sched : List Choice) : RS :=
  runLoop cfg p (reqTids p) sched (initRS cfg p store fuel)

/-- state between the submit phase and the next `runner.wait` -/
def afterSubmit (cfg : Config) (p : Problem) (store : Store) (fuel : Nat) (sched : List Choice) : RS :=
  let rs := loopState cfg p store fuel sched
  submitAll cfg p (readyTasks p rs.ts) rs

theorem init_limit (cfg : Config) (p : Problem) (store : Store) (fuel : Nat) :
    LimitOK p (initRS cfg p store fuel).ts.active := by
  intro T L _
  simp [initRS, plan_active, typeCount]

/-- per-type limit at every loop head: submitted-and-unfinished tasks of a type never exceed
    the type's `max_parallel` -/
theorem type_limit_loop_head (cfg : Config) (p : Problem) (store : Store) (fuel : Nat)
    (sched : List Choice) (T L : Nat) (hL : p.maxPar T = some L) :
    typeCount p (loopState cfg p store fuel sched).ts.active T ≤ L :=
  runLoop_limit cfg p (reqTids p) sched _ (init_limit cfg p store fuel) T L hL

/-- per-type limit right after the submit phase (the maximum of the in-flight set) -/
theorem type_limit_after_submit (cfg : Config) (p : Problem) (store : Store) (fuel : Nat)
    (sched : List Choice) (T L : Nat) (hL : p.maxPar T = some L) :
    typeCount p (afterSubmit cfg p store fuel sched).ts.active T ≤ L :=
  submitAll_limit cfg p _ (runLoop_limit cfg p (reqTids p) sched _ (init_limit cfg p store fuel)) T L hL

/-- per-type limit in the final state of a whole run -/
theorem type_limit_run (cfg : Config) (p : Problem) (store : Store) (fuel : Nat)
    (sched : List Choice) (T L : Nat) (hL : p.maxPar T = some L) :
    typeCount p (run cfg p store fuel sched).ts.active T ≤ L := by
  have h := type_limit_loop_head cfg p store fuel sched T L hL
  simp only [run, loopState] at *
  simp only [finish]
  split
  · split <;> exact h
  · exact h

/-- global limit: the executor never runs more than `max_workers` worker processes -/
theorem worker_limit_loop_head (cfg : Config) (p : Problem) (store : Store) (fuel : Nat)
    (sched : List Choice) :
    (loopState cfg p store fuel sched).running.length ≤ cfg.maxWorkers :=
  runLoop_workers cfg p (reqTids p) sched _ (by simp [WorkersOK, initRS])

theorem worker_limit_after_submit (cfg : Config) (p : Problem) (store : Store) (fuel : Nat)
    (sched : List Choice) :
    (afterSubmit cfg p store fuel sched).running.length ≤ cfg.maxWorkers :=
  submitAll_workers cfg p _ _ (worker_limit_loop_head cfg p store fuel sched)

/-- `_start_processes` tops up to the limit and never beyond, from any executor state -/
theorem start_processes_tops_up (cfg : Config) (rs : RS) (h : rs.running.length ≤ cfg.maxWorkers) :
    (startProcesses cfg rs).running.length = min cfg.maxWorkers (rs.running.length + rs.queued.length) := by
  rw [startProcesses_running_length]; omega

/-- the serial backend has no worker process at all: tasks execute in the caller, inside `wait`,
    one per call -/
theorem serial_no_worker (cfg : Config) (p : Problem) (store : Store) (fuel : Nat)
    (sched : List Choice) (hs : cfg.backend = .serial) :
    (loopState cfg p store fuel sched).running = [] := by
  unfold loopState
  exact runLoop_inv cfg p (reqTids p) (fun rs => rs.running = [])
    (fun c rs h => iteration_serial_running cfg p _ c rs hs h) sched _ (by simp [initRS])

/-- one serial `wait` executes at most one submission (the head of the deque) -/
theorem serial_one_per_wait (cfg : Config) (p : Problem) (req : List Tid) (rs : RS) :
    (waitSerial cfg p req rs).queued = rs.queued.tail := by
  simp only [waitSerial]
  split
  · next h => simp [h]
  · next j rest h => rw [processYield_queued]; simp [h]

/-! non-vacuity: a concrete problem in which the limits bite -/
def exP : Problem where
  tidOf := fun i => i
  children := fun _ => []
  requested := [0, 1, 2]
  ty := fun _ => 0
  maxPar := fun _ => some 2
  cacheable := fun _ => false
  fails := fun _ => false
  dies := fun _ => false
  behave := fun t _ => some t
def exCfg : Config := { backend := .fork, maxWorkers := 1, contOnFail := true, bust := false }

example : exP.maxPar 0 = some 2 ∧
    typeCount exP (afterSubmit exCfg exP [] 4 []).ts.active 0 = 2 ∧
    (afterSubmit exCfg exP [] 4 []).running.length = 1 ∧
    (afterSubmit exCfg exP [] 4 []).queued.length = 1 ∧
    (afterSubmit exCfg exP [] 4 []).ts.pending = [2] := by decide

/-! ## Part 2: at no instant (statement granularity, interrupts included) -/

/-- state after the first `k` primitives of the main loop's stream (`k` beyond its end: the end) -/
abbrev mainAt (cfg : Config) (p : Problem) (store : Store) (fuel : Nat) (sched : List Choice) (k : Nat) : IS :=
  stateAt cfg p store fuel sched k

/-- state after `m` primitives of the first interrupt handler entered at instant `k` -/
def handlerAt (cfg : Config) (p : Problem) (store : Store) (fuel : Nat) (sched : List Choice) (k : Nat)
    (ds : List Choice) (m : Nat) : IS :=
  runPrims cfg p ((handlerPrims cfg p (reqTids p) ds (mainAt cfg p store fuel sched k)).take m)
    (mainAt cfg p store fuel sched k)

/-- state after `m2` primitives of the second handler entered at instant `m` of the first -/
def secondAt (cfg : Config) (p : Problem) (store : Store) (fuel : Nat) (sched : List Choice) (k : Nat)
    (ds : List Choice) (m m2 : Nat) : IS :=
  runPrims cfg p ((secondPrims cfg p (reqTids p) (handlerAt cfg p store fuel sched k ds m)).take m2)
    (handlerAt cfg p store fuel sched k ds m)

/-- the states of `interruptedRun` are among these -/
theorem interruptedRun_states (cfg : Config) (p : Problem) (store : Store) (fuel : Nat)
    (sched ds : List Choice) (k : Nat) (k2 : Option Nat) :
    (∃ k', (interruptedRun cfg p store fuel sched k ds k2).atIntr = mainAt cfg p store fuel sched k') ∧
    ((∃ k', (interruptedRun cfg p store fuel sched k ds k2).final = mainAt cfg p store fuel sched k') ∨
     (∃ m, (interruptedRun cfg p store fuel sched k ds k2).final = handlerAt cfg p store fuel sched k ds m) ∨
     (∃ m m2, (interruptedRun cfg p store fuel sched k ds k2).final = secondAt cfg p store fuel sched k ds m m2)) := by
  by_cases hk : k < (mainOf cfg p store fuel sched).length
  · have hall : ∀ (l : List Prim), l.take l.length = l := fun l => List.take_length
    cases k2 with
    | none =>
      rw [interruptedRun_single store fuel sched ds k hk]
      exact ⟨⟨k, rfl⟩, Or.inr (Or.inl ⟨_, by simp only [handlerAt]; rw [hall]⟩)⟩
    | some m =>
      by_cases hm : m < (handlerPrims cfg p (reqTids p) ds (stateAt cfg p store fuel sched k)).length
      · rw [interruptedRun_double store fuel sched ds k m hk hm]
        exact ⟨⟨k, rfl⟩, Or.inr (Or.inr ⟨m, _, by simp only [secondAt, handlerAt]; rw [hall]⟩)⟩
      · rw [interruptedRun_late store fuel sched ds k m hk hm, interruptedRun_single store fuel sched ds k hk]
        exact ⟨⟨k, rfl⟩, Or.inr (Or.inl ⟨_, by simp only [handlerAt]; rw [hall]⟩)⟩
  · have hk' : ¬ k < (mainStream cfg p (reqTids p) sched (initIS cfg p store fuel)).length := hk
    have hfin : runPrims cfg p (mainStream cfg p (reqTids p) sched (initIS cfg p store fuel)) (initIS cfg p store fuel)
        = mainAt cfg p store fuel sched k := by
      simp only [mainAt, stateAt, mainOf]
      rw [List.take_of_length_le (Nat.le_of_not_lt hk')]
    simp only [interruptedRun, hk', if_false]
    exact ⟨⟨k, hfin⟩, Or.inl ⟨k, hfin⟩⟩

/-- PER-TYPE LIMIT AT EVERY INSTANT of the main loop: after every primitive, the middle of the
    submit phase included -/
theorem type_limit_every_instant (cfg : Config) (p : Problem) (store : Store) (fuel : Nat)
    (sched : List Choice) (k : Nat) (T L : Nat) (hL : p.maxPar T = some L) :
    typeCount p (mainAt cfg p store fuel sched k).rs.ts.active T ≤ L :=
  (always_limit_main (cfg := cfg) (p := p) (reqTids p) sched _ (init_limit cfg p store fuel)).prefix k T L hL

/-- … and at every instant of the interrupt handler entered at any instant `k` -/
theorem type_limit_every_instant_handler (cfg : Config) (p : Problem) (store : Store) (fuel : Nat)
    (sched : List Choice) (k : Nat) (ds : List Choice) (m : Nat) (T L : Nat) (hL : p.maxPar T = some L) :
    typeCount p (handlerAt cfg p store fuel sched k ds m).rs.ts.active T ≤ L :=
  (always_limit_handler (cfg := cfg) (p := p) (reqTids p) ds _
    (fun T L hL => type_limit_every_instant cfg p store fuel sched k T L hL)).prefix m T L hL

/-- … and at every instant of the second handler (double interrupt at any `k`, `m`) -/
theorem type_limit_every_instant_second (cfg : Config) (p : Problem) (store : Store) (fuel : Nat)
    (sched : List Choice) (k : Nat) (ds : List Choice) (m m2 : Nat) (T L : Nat) (hL : p.maxPar T = some L) :
    typeCount p (secondAt cfg p store fuel sched k ds m m2).rs.ts.active T ≤ L :=
  (always_limit_second (cfg := cfg) (p := p) (reqTids p) _
    (fun T L hL => type_limit_every_instant_handler cfg p store fuel sched k ds m T L hL)).prefix m2 T L hL

/-- GLOBAL LIMIT AT EVERY INSTANT of the main loop: at most `max_workers` live worker processes
    and at most `max_workers` entries in the executor's running map, after every primitive -/
theorem worker_limit_every_instant (cfg : Config) (p : Problem) (store : Store) (fuel : Nat)
    (sched : List Choice) (k : Nat) :
    (mainAt cfg p store fuel sched k).alive.length ≤ cfg.maxWorkers ∧
    (mainAt cfg p store fuel sched k).rs.running.length + (mainAt cfg p store fuel sched k).zombies.length
      ≤ cfg.maxWorkers :=
  (always_W_main (cfg := cfg) (p := p) (reqTids p) sched _ (WI_init store fuel)).prefix k

theorem worker_limit_every_instant_handler (cfg : Config) (p : Problem) (store : Store) (fuel : Nat)
    (sched : List Choice) (k : Nat) (ds : List Choice) (m : Nat) :
    (handlerAt cfg p store fuel sched k ds m).alive.length ≤ cfg.maxWorkers ∧
    (handlerAt cfg p store fuel sched k ds m).rs.running.length +
      (handlerAt cfg p store fuel sched k ds m).zombies.length ≤ cfg.maxWorkers :=
  (always_W_handler (cfg := cfg) (p := p) (reqTids p) ds _
    (worker_limit_every_instant cfg p store fuel sched k)).prefix m

theorem worker_limit_every_instant_second (cfg : Config) (p : Problem) (store : Store) (fuel : Nat)
    (sched : List Choice) (k : Nat) (ds : List Choice) (m m2 : Nat) :
    (secondAt cfg p store fuel sched k ds m m2).alive.length ≤ cfg.maxWorkers ∧
    (secondAt cfg p store fuel sched k ds m m2).rs.running.length +
      (secondAt cfg p store fuel sched k ds m m2).zombies.length ≤ cfg.maxWorkers :=
  (always_W_second (cfg := cfg) (p := p) (reqTids p) _
    (worker_limit_every_instant_handler cfg p store fuel sched k ds m)).prefix m2

/-- outside `_start_processes`' loop body every live worker is an entry of the running map (so
    the two counts agree up to workers found dead); at loop heads in particular -/
theorem worker_alive_tracked_loop_head (cfg : Config) (p : Problem) (store : Store) (fuel : Nat)
    (sched : List Choice) :
    (runPrims cfg p (mainOf cfg p store fuel sched) (initIS cfg p store fuel)).alive.Sublist
      ((runPrims cfg p (mainOf cfg p store fuel sched) (initIS cfg p store fuel)).rs.running.map Job.tid) := by
  have h : ∀ (sched : List Choice) (s : IS), WI cfg s →
      WI cfg (runPrims cfg p (mainStream cfg p (reqTids p) sched s) s) := by
    intro sched
    induction sched with
    | nil => intro s h; exact h
    | cons c cs ih =>
      intro s h
      unfold mainStream
      split
      · split
        · rw [runPrims_append]
          exact ih _ (always_W_iteration (cfg := cfg) (p := p) (reqTids p) c s h).2
        · exact h
      · exact h
  exact (h sched _ (WI_init store fuel)).sub

/-- SERIAL BACKEND AT EVERY INSTANT: no worker process and no running entry ever exists; the
    submission in execution is the single `cur` popped by `wait` (executed in the caller) -/
theorem serial_one_at_a_time_every_instant (cfg : Config) (p : Problem) (store : Store) (fuel : Nat)
    (sched : List Choice) (k : Nat) (hs : cfg.backend = .serial) :
    (mainAt cfg p store fuel sched k).alive = [] ∧ (mainAt cfg p store fuel sched k).rs.running = [] ∧
    (mainAt cfg p store fuel sched k).cur.toList.length ≤ 1 := by
  have h := (always_Idle_main (cfg := cfg) (p := p) hs (reqTids p) sched (initIS cfg p store fuel) ⟨rfl, rfl⟩).prefix k
  exact ⟨h.2, h.1, by cases (mainAt cfg p store fuel sched k).cur <;> simp⟩

theorem serial_one_at_a_time_every_instant_handler (cfg : Config) (p : Problem) (store : Store) (fuel : Nat)
    (sched : List Choice) (k : Nat) (ds : List Choice) (m : Nat) (hs : cfg.backend = .serial) :
    (handlerAt cfg p store fuel sched k ds m).alive = [] ∧ (handlerAt cfg p store fuel sched k ds m).rs.running = [] := by
  have h0 := serial_one_at_a_time_every_instant cfg p store fuel sched k hs
  have h := (always_Idle_handler (cfg := cfg) (p := p) (reqTids p) ds _ ⟨h0.2.1, h0.1⟩).prefix m
  exact ⟨h.2, h.1⟩

theorem serial_one_at_a_time_every_instant_second (cfg : Config) (p : Problem) (store : Store) (fuel : Nat)
    (sched : List Choice) (k : Nat) (ds : List Choice) (m m2 : Nat) (hs : cfg.backend = .serial) :
    (secondAt cfg p store fuel sched k ds m m2).alive = [] ∧
    (secondAt cfg p store fuel sched k ds m m2).rs.running = [] := by
  have h0 := serial_one_at_a_time_every_instant_handler cfg p store fuel sched k ds m hs
  have h := (always_Idle_second (cfg := cfg) (p := p) (reqTids p) _ ⟨h0.2, h0.1⟩).prefix m2
  exact ⟨h.2, h.1⟩

/-- SERIAL BACKEND, on the observable trace, at every instant of the main loop: at most ONE task
    has been started (`Ev.start`: `run()` or the cache load entered) and not yet yielded back to the
    coordinator (`Ev.yield`) -/
theorem serial_in_flight_every_instant (cfg : Config) (p : Problem) (store : Store) (fuel : Nat)
    (sched : List Choice) (k : Nat) (hs : cfg.backend = .serial) :
    nStart (mainAt cfg p store fuel sched k) ≤ nYield (mainAt cfg p store fuel sched k) + 1 :=
  (always_J_main_serial (cfg := cfg) (p := p) hs (reqTids p) sched (initIS cfg p store fuel)
    (J0_init store fuel)).prefix k

theorem serial_in_flight_every_instant_handler (cfg : Config) (p : Problem) (store : Store) (fuel : Nat)
    (sched : List Choice) (k : Nat) (ds : List Choice) (m : Nat) (hs : cfg.backend = .serial) :
    nStart (handlerAt cfg p store fuel sched k ds m) ≤ nYield (handlerAt cfg p store fuel sched k ds m) + 1 :=
  (always_J_handler (cfg := cfg) (p := p) (reqTids p) ds _
    (serial_in_flight_every_instant cfg p store fuel sched k hs)).prefix m

theorem serial_in_flight_every_instant_second (cfg : Config) (p : Problem) (store : Store) (fuel : Nat)
    (sched : List Choice) (k : Nat) (ds : List Choice) (m m2 : Nat) (hs : cfg.backend = .serial) :
    nStart (secondAt cfg p store fuel sched k ds m m2) ≤ nYield (secondAt cfg p store fuel sched k ds m m2) + 1 :=
  (always_J_second (cfg := cfg) (p := p) (reqTids p) _
    (serial_in_flight_every_instant_handler cfg p store fuel sched k ds m hs)).prefix m2

/-- for contrast: a process backend with `max_workers = 2` does have two tasks started and not
    yielded (k = 12 of `exP`'s stream with two workers) — the serial bound is not vacuous … -/
example : nStart (mainAt { exCfg with maxWorkers := 2 } exP [] 4 [⟨fun _ => true⟩] 12) = 2 ∧
    nYield (mainAt { exCfg with maxWorkers := 2 } exP [] 4 [⟨fun _ => true⟩] 12) = 0 := by decide

/-- … and the serial runner at k = 6 (first task run, not yet yielded) has exactly one in flight,
    at k = 9 (after `serialSaveBegin`, `serialSaveEnd`, `popFuture`) none, with one `yield` on record -/
example : nStart (mainAt { exCfg with backend := .serial } exP [] 4 [⟨fun _ => true⟩] 6) = 1 ∧
    nYield (mainAt { exCfg with backend := .serial } exP [] 4 [⟨fun _ => true⟩] 6) = 0 ∧
    nStart (mainAt { exCfg with backend := .serial } exP [] 4 [⟨fun _ => true⟩] 9) = 1 ∧
    nYield (mainAt { exCfg with backend := .serial } exP [] 4 [⟨fun _ => true⟩] 9) = 1 := by decide

/-! non-vacuity at mid-iteration prefixes (`exP`: three tasks of one type with `max_parallel = 2`,
    `exCfg`: fork, `max_workers = 1`). The stream starts: 0 startTask 0, 1 enqueue 0, 2 procStart 0,
    3 regRunning 0, 4 unregPending 0, 5 regFuture 0, 6 startTask 1, 7 enqueue 1, 8 regFuture 1,
    9 consumeResults … -/

/-- k = 7, in the middle of the submit phase: the type's limit is reached (2 active of 2 allowed),
    a third task is pending and stays so -/
example : exP.maxPar 0 = some 2 ∧
    typeCount exP (mainAt exCfg exP [] 4 [⟨fun _ => true⟩] 7).rs.ts.active 0 = 2 ∧
    (mainAt exCfg exP [] 4 [⟨fun _ => true⟩] 7).rs.ts.pending = [2] ∧
    (mainOf exCfg exP [] 4 [⟨fun _ => true⟩]).length > 9 := by decide

/-- k = 3, inside `_start_processes`' loop body (after `process.start()`, before the running map
    is written): one live worker = `max_workers`, the running map is still empty -/
theorem worker_window_example :
    (mainAt exCfg exP [] 4 [⟨fun _ => true⟩] 3).alive = [0] ∧
    (mainAt exCfg exP [] 4 [⟨fun _ => true⟩] 3).rs.running.length = 0 ∧
    exCfg.maxWorkers = 1 := by decide

/-- k = 8: the second submission stays queued, the limit `max_workers = 1` bites -/
example : (mainAt exCfg exP [] 4 [⟨fun _ => true⟩] 8).alive = [0] ∧
    (mainAt exCfg exP [] 4 [⟨fun _ => true⟩] 8).rs.queued.map Job.tid = [1] := by decide

/-- an interrupt in that window (k = 3), then two primitives of the handler, then a second
    interrupt: the bounds hold in a state with a live, untracked worker -/
example : (secondAt exCfg exP [] 4 [⟨fun _ => true⟩] 3 [⟨fun _ => true⟩] 1 2).alive = [0] ∧
    (secondAt exCfg exP [] 4 [⟨fun _ => true⟩] 3 [⟨fun _ => true⟩] 1 2).rs.running = [] := by decide

/-- serial backend, k = 6 (0 startTask 0, 1 serialAppend 0, 2 startTask 1, 3 serialAppend 1,
    4 popDeque, 5 serialRun): the first submission has been run and is not yet completed, the
    second is still in the deque, the third is held back by `max_parallel`; no worker process -/
example : (mainAt { exCfg with backend := .serial } exP [] 4 [⟨fun _ => true⟩] 6).cur.map Job.tid = some 0 ∧
    (mainAt { exCfg with backend := .serial } exP [] 4 [⟨fun _ => true⟩] 6).curOut = some (.ok 0) ∧
    (mainAt { exCfg with backend := .serial } exP [] 4 [⟨fun _ => true⟩] 6).rs.queued.map Job.tid = [1] ∧
    (mainAt { exCfg with backend := .serial } exP [] 4 [⟨fun _ => true⟩] 6).alive = [] := by decide

end Lt.Props.C04
