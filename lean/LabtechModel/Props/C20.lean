import LabtechModel.Proofs.Diagram
/-!
# C20 — The task diagram shows every reachable type and relationship

All statements are about `Lt.Diag.build` / `Lt.Diag.buildTaskDiagram` (Model/Diagram.lean), for every
list of tasks over the value grammar (any number of types, any nesting depth, any size).

* reachable tasks = `subQueue tasks`: every task sub-term of the input, at any depth, through
  collections and through tasks (duplicates kept);
* "task `t` holds in parameter `p` a task of type `D`" = `(p, v) ∈ t.fields` and some
  `d ∈ findTasks v` has `d.ty = D` (`findTasks` goes through tuples / dict values at any depth and
  stops at tasks).

Proved:
* `build_fuel_sufficient`, `build_visits_all` — the `found_tasks` loop needs exactly as many
  iterations as there are task sub-terms; with that fuel (or more) it pops every reachable task
  exactly as often as it occurs (the visiting order is a permutation of `subQueue`), so the loop
  terminates and nothing reachable is skipped;
* `build_types`, `build_types_nodup`, `build_types_order` — the recorded types are exactly the
  types of the reachable tasks, each once, in first-visited order;
* `build_rels`, `build_rels_nodup`, `build_entry` — the relationships recorded for a type `T` are
  exactly the `(p, D)` with some reachable task of type `T` holding in `p` a task of type `D`, each
  once; the structure has exactly one entry per type;
* `many_iff` — the flag of `(T, p, D)` is set iff some reachable task of type `T` holds a task of
  type `D` in a parameter `p` whose value is not itself a task;
* `addRel_recorded` — the `KeyError` branch of `add_relationship` is not reachable from `build`;
* `render_shape_classes`, `render_shape_block`, `render_shape_arrows`, `render_shape_groups`,
  `render_defined` — one class block per structure entry, in order, each = one `class` line, one line
  per field, one `run()` line; one arrow line per recorded relationship carrying `"many"` exactly when the
  flag is set; one arrow group per type that has relationships; the text is defined whenever every
  reachable type has a table entry.
Determinism: `buildTaskDiagram` is a function.
-/
namespace Lt.Props.C20
open Lt.Diag

/-- the visiting order of `build` -/
def bfs (tasks : List Task) : List Task := visit (sizeQueue tasks) tasks

/-- `t` holds in parameter `p` (value `v`) a task of type `D` -/
def Holds (t : Task) (p : String) (v : Value) (D : Nat) : Prop :=
  (p, v) ∈ t.fields ∧ ∃ d ∈ findTasks v, d.ty = D

theorem build_eq (tasks : List Task) : build tasks = (bfs tasks).foldl processTask [] := by
  simp [build, bfs, buildLoop_eq_fold]

/-- more fuel than the number of task sub-terms changes nothing: the loop has stopped by then -/
theorem build_fuel_sufficient (tasks : List Task) (n : Nat) (h : sizeQueue tasks ≤ n) :
    buildLoop n tasks [] = build tasks := by
  simp only [build, buildLoop_eq_fold]
  rw [visit_fuel n tasks h]

/-- the loop pops every reachable task, exactly as often as it occurs as a sub-term -/
theorem build_visits_all (tasks : List Task) : (bfs tasks).Perm (subQueue tasks) :=
  visit_perm _ _ (Nat.le_refl _)

theorem mem_bfs (tasks : List Task) (t : Task) : t ∈ bfs tasks ↔ t ∈ subQueue tasks :=
  (build_visits_all tasks).mem_iff

/-- class blocks: a type is recorded iff it is the type of a reachable task -/
theorem build_types (tasks : List Task) (T : Nat) :
    T ∈ types (build tasks) ↔ ∃ t ∈ subQueue tasks, t.ty = T := by
  rw [build_eq, types_fold, mem_firstSeen]
  simp only [types, List.map_nil, List.not_mem_nil, false_or, List.mem_map]
  constructor
  · rintro ⟨t, ht, rfl⟩; exact ⟨t, (mem_bfs tasks t).mp ht, rfl⟩
  · rintro ⟨t, ht, rfl⟩; exact ⟨t, (mem_bfs tasks t).mpr ht, rfl⟩

/-- … each once … -/
theorem build_types_nodup (tasks : List Task) : (types (build tasks)).Nodup := by
  rw [build_eq, types_fold]
  exact nodup_firstSeen _ _ (by simp [types])

/-- … in first-visited order -/
theorem build_types_order (tasks : List Task) :
    types (build tasks) = firstSeen [] ((bfs tasks).map Task.ty) := by
  rw [build_eq, types_fold]; rfl

/-- the structure has exactly one entry per recorded type: its relationships are `getRels` -/
theorem build_entry (tasks : List Task) (T : Nat) (r : Rels) :
    (T, r) ∈ build tasks ↔ T ∈ types (build tasks) ∧ r = getRels (build tasks) T := by
  constructor
  · intro h
    exact ⟨List.mem_map.mpr ⟨(T, r), h, rfl⟩, (getRels_of_mem _ _ _ (build_types_nodup tasks) h).symm⟩
  · rintro ⟨h, rfl⟩; exact mem_of_getRels _ _ h

/-- arrows: `(p, D)` is recorded for `T` iff some reachable task of type `T` holds in `p` a task of type `D` -/
theorem build_rels (tasks : List Task) (T : Nat) (p : String) (D : Nat) :
    (p, D) ∈ keys (getRels (build tasks) T) ↔
      ∃ t ∈ subQueue tasks, t.ty = T ∧ ∃ v, Holds t p v D := by
  rw [build_eq, keys_fold]
  simp only [getRels, keys, List.map_nil, List.not_mem_nil, false_or, List.mem_map, Prod.exists,
    Prod.mk.injEq, Holds]
  constructor
  · rintro ⟨t, ht, hT, p', D', m, hm, rfl, rfl⟩
    obtain ⟨v, hv, hd, _⟩ := (mem_taskRels _ _ _).mp hm
    exact ⟨t, (mem_bfs tasks t).mp ht, hT, v, hv, hd⟩
  · rintro ⟨t, ht, hT, v, hv, hd⟩
    exact ⟨t, (mem_bfs tasks t).mpr ht, hT, p, D, !v.isTask,
      (mem_taskRels _ (p, D) _).mpr ⟨v, hv, hd, rfl⟩, rfl, rfl⟩

/-- … each once -/
theorem build_rels_nodup (tasks : List Task) (T : Nat) : (keys (getRels (build tasks) T)).Nodup := by
  rw [build_eq]
  exact nodup_fold _ _ _ (by simp [getRels, keys])

/-- "many": the relationship `(T, p, D)` carries the flag iff in at least one reachable task of type `T`
the parameter `p` is not itself a task and contains a task of type `D` -/
theorem many_iff (tasks : List Task) (T : Nat) (p : String) (D : Nat) :
    ((p, D), true) ∈ getRels (build tasks) T ↔
      ∃ t ∈ subQueue tasks, t.ty = T ∧ ∃ v, Holds t p v D ∧ v.isTask = false := by
  rw [← flag_iff_mem _ _ (build_rels_nodup tasks T), build_eq, flag_fold]
  simp only [getRels, flag, Bool.false_eq_true, false_or, Holds]
  constructor
  · rintro ⟨t, ht, hT, hm⟩
    obtain ⟨v, hv, hd, hmv⟩ := (mem_taskRels _ _ _).mp hm
    refine ⟨t, (mem_bfs tasks t).mp ht, hT, v, ⟨hv, hd⟩, ?_⟩
    cases hvt : v.isTask <;> simp [hvt] at hmv ⊢
  · rintro ⟨t, ht, hT, v, ⟨hv, hd⟩, hvt⟩
    exact ⟨t, (mem_bfs tasks t).mpr ht, hT, (mem_taskRels _ (p, D) _).mpr ⟨v, hv, hd, by simp [hvt]⟩⟩

/-- a recorded relationship that is not flagged: the parameter is a task itself in every reachable holder -/
theorem single_iff (tasks : List Task) (T : Nat) (p : String) (D : Nat) :
    ((p, D), false) ∈ getRels (build tasks) T ↔
      (∃ t ∈ subQueue tasks, t.ty = T ∧ ∃ v, Holds t p v D) ∧
      ∀ t ∈ subQueue tasks, t.ty = T → ∀ v, Holds t p v D → v.isTask = true := by
  have hnd := build_rels_nodup tasks T
  constructor
  · intro h
    have hk : (p, D) ∈ keys (getRels (build tasks) T) := List.mem_map.mpr ⟨_, h, rfl⟩
    refine ⟨(build_rels tasks T p D).mp hk, ?_⟩
    intro t ht hT v hv
    cases hvt : v.isTask with
    | true => rfl
    | false =>
      have hm := (many_iff tasks T p D).mpr ⟨t, ht, hT, v, hv, hvt⟩
      have : flag (getRels (build tasks) T) (p, D) = true := (flag_iff_mem _ _ hnd).mpr hm
      -- the key occurs once, so it cannot carry both flags
      exfalso
      clear hm hk
      revert this h hnd
      generalize getRels (build tasks) T = r
      intro hnd h hf
      induction r with
      | nil => simp at h
      | cons e rest ih =>
        obtain ⟨k', m'⟩ := e
        simp only [keys, List.map_cons, List.nodup_cons] at hnd
        simp only [List.mem_cons, Prod.mk.injEq] at h
        simp only [flag] at hf
        by_cases hk' : k' = (p, D)
        · subst hk'
          simp only [if_true] at hf
          rcases h with ⟨_, h2⟩ | h
          · rw [hf] at h2; exact Bool.noConfusion h2
          · exact hnd.1 (List.mem_map.mpr ⟨_, h, rfl⟩)
        · simp only [hk', if_false] at hf
          rcases h with ⟨h1, _⟩ | h
          · exact hk' h1.symm
          · exact ih hnd.2 h hf
  · rintro ⟨hex, hall⟩
    have hk := (build_rels tasks T p D).mpr hex
    obtain ⟨⟨k, m⟩, hmem, hkeq⟩ := List.mem_map.mp hk
    simp only at hkeq
    subst hkeq
    cases m with
    | false => exact hmem
    | true =>
      obtain ⟨t, ht, hT, v, hv, hvt⟩ := (many_iff tasks T p D).mp hmem
      have := hall t ht hT v hv
      rw [this] at hvt
      exact Bool.noConfusion hvt

/-- `add_relationship` is only called for a type that `build` has already recorded (no `KeyError`) -/
theorem addRel_recorded (s : Struct) (t : Task) :
    ∀ l : List (RelKey × Bool),
      t.ty ∈ types (l.foldl (fun s r => addRel s t.ty r.1 r.2) (addType s t.ty)) := by
  intro l
  rw [(addRelAll_spec t.ty l _ (mem_types_addType s t.ty)).1]
  exact mem_types_addType s t.ty

/-! ## the text -/

/-- one class block per structure entry, in the structure's order, rendered from the type's table entry -/
theorem render_shape_classes (tbl : TypeTable) : ∀ (s : Struct) (bs : List (List String)),
    classBlocks tbl s = some bs →
      Forall2 (fun e b => ∃ i, lookupType tbl e.1 = some i ∧ b = typeLines i) s bs := by
  intro s
  induction s with
  | nil => intro bs h; simp only [classBlocks, Option.some.injEq] at h; subst h; exact Forall2.nil
  | cons e rest ih =>
    intro bs h
    obtain ⟨ty, r⟩ := e
    simp only [classBlocks] at h
    cases hl : lookupType tbl ty with
    | none => simp [hl] at h
    | some i =>
      cases hr : classBlocks tbl rest with
      | none => simp [hl, hr] at h
      | some bs' =>
        simp only [hl, hr, Option.some.injEq] at h
        subst h
        exact Forall2.cons ⟨i, hl, rfl⟩ (ih bs' hr)

/-- a class block is one `class` line, one line per field (in order), one `run()` line -/
theorem render_shape_block (i : TypeInfo) :
    typeLines i = ("class " ++ i.name) :: (i.fields.map (fun f => i.name ++ " : " ++ f.1 ++ " " ++ f.2)
        ++ [i.name ++ " : run()" ++ runSuffix i.ret])
    ∧ (typeLines i).length = i.fields.length + 2 := by
  simp [typeLines]

/-- one arrow line per recorded relationship, in order; `"many" ` appears exactly when the flag is set -/
theorem render_shape_arrows (tbl : TypeTable) (fromName : String) : ∀ (r : Rels) (ls : List String),
    relLines tbl fromName r = some ls →
      Forall2 (fun e l => ∃ di, lookupType tbl e.1.2 = some di ∧
          l = fromName ++ " <-- " ++ (if e.2 then "\"many\" " else "") ++ di.name ++ ": " ++ e.1.1) r ls := by
  intro r
  induction r with
  | nil => intro ls h; simp only [relLines, Option.some.injEq] at h; subst h; exact Forall2.nil
  | cons e rest ih =>
    intro ls h
    obtain ⟨⟨p, d⟩, m⟩ := e
    simp only [relLines] at h
    cases hl : lookupType tbl d with
    | none => simp [hl] at h
    | some di =>
      cases hr : relLines tbl fromName rest with
      | none => simp [hl, hr] at h
      | some ls' =>
        simp only [hl, hr, Option.some.injEq] at h
        subst h
        exact Forall2.cons ⟨di, hl, rfl⟩ (ih ls' hr)

/-- one arrow group per type that has at least one relationship, in the structure's order -/
theorem render_shape_groups (tbl : TypeTable) : ∀ (s : Struct) (bs : List (List String)),
    relBlocks tbl s = some bs →
      Forall2 (fun e b => ∃ i, lookupType tbl e.1 = some i ∧ relLines tbl i.name e.2 = some b)
        (s.filter (fun e => !e.2.isEmpty)) bs := by
  intro s
  induction s with
  | nil => intro bs h; simp only [relBlocks, Option.some.injEq] at h; subst h; exact Forall2.nil
  | cons e rest ih =>
    intro bs h
    obtain ⟨ty, r⟩ := e
    simp only [relBlocks] at h
    cases hl : lookupType tbl ty with
    | none => simp [hl] at h
    | some i =>
      cases hr : relBlocks tbl rest with
      | none => simp [hl, hr] at h
      | some bs' =>
        simp only [hl, hr] at h
        cases hemp : r.isEmpty with
        | true =>
          simp only [hemp, if_true, Option.some.injEq] at h
          subst h
          simp only [List.filter_cons, hemp, Bool.not_true, Bool.false_eq_true, if_false]
          exact ih bs' hr
        | false =>
          simp only [hemp, Bool.false_eq_true, if_false] at h
          cases hrl : relLines tbl i.name r with
          | none => simp [hrl] at h
          | some ls =>
            simp only [hrl, Option.some.injEq] at h
            subst h
            simp only [List.filter_cons, hemp, Bool.not_false, if_true]
            exact Forall2.cons ⟨i, hl, hrl⟩ (ih bs' hr)

theorem relLines_defined (tbl : TypeTable) (fromName : String) : ∀ r : Rels,
    (∀ k ∈ keys r, (lookupType tbl k.2).isSome) → (relLines tbl fromName r).isSome := by
  intro r
  induction r with
  | nil => intro _; simp [relLines]
  | cons e rest ih =>
    intro h
    obtain ⟨⟨p, d⟩, m⟩ := e
    have h1 := h (p, d) (by simp [keys])
    have h2 := ih (fun k hk => h k (by simp only [keys, List.map_cons, List.mem_cons]; exact Or.inr hk))
    simp only [relLines]
    cases hl : lookupType tbl d with
    | none => simp [hl] at h1
    | some di =>
      cases hr : relLines tbl fromName rest with
      | none => simp [hr] at h2
      | some ls => simp

theorem classBlocks_defined (tbl : TypeTable) : ∀ s : Struct,
    (∀ T ∈ types s, (lookupType tbl T).isSome) → (classBlocks tbl s).isSome := by
  intro s
  induction s with
  | nil => intro _; simp [classBlocks]
  | cons e rest ih =>
    intro h
    obtain ⟨ty, r⟩ := e
    have h1 := h ty (by simp [types])
    have h2 := ih (fun T hT => h T (by simp only [types, List.map_cons, List.mem_cons]; exact Or.inr hT))
    simp only [classBlocks]
    cases hl : lookupType tbl ty with
    | none => simp [hl] at h1
    | some i =>
      cases hr : classBlocks tbl rest with
      | none => simp [hr] at h2
      | some bs => simp

theorem relBlocks_defined (tbl : TypeTable) : ∀ s : Struct,
    (∀ T ∈ types s, (lookupType tbl T).isSome) →
    (∀ e ∈ s, ∀ k ∈ keys e.2, (lookupType tbl k.2).isSome) → (relBlocks tbl s).isSome := by
  intro s
  induction s with
  | nil => intro _ _; simp [relBlocks]
  | cons e rest ih =>
    intro h hk
    obtain ⟨ty, r⟩ := e
    have h1 := h ty (by simp [types])
    have h2 := ih (fun T hT => h T (by simp only [types, List.map_cons, List.mem_cons]; exact Or.inr hT))
      (fun e he => hk e (List.mem_cons_of_mem _ he))
    simp only [relBlocks]
    cases hl : lookupType tbl ty with
    | none => simp [hl] at h1
    | some i =>
      cases hr : relBlocks tbl rest with
      | none => simp [hr] at h2
      | some bs =>
        simp only
        split
        · simp
        · have h3 := relLines_defined tbl i.name r (hk (ty, r) List.mem_cons_self)
          cases hrl : relLines tbl i.name r with
          | none => simp [hrl] at h3
          | some ls => simp

/-- the diagram text is defined whenever every reachable task's type has a table entry -/
theorem render_defined (tbl : TypeTable) (dir : String) (tasks : List Task)
    (h : ∀ t ∈ subQueue tasks, (lookupType tbl t.ty).isSome) :
    (buildTaskDiagram tbl dir tasks).isSome := by
  have hty : ∀ T ∈ types (build tasks), (lookupType tbl T).isSome := by
    intro T hT
    obtain ⟨t, ht, rfl⟩ := (build_types tasks T).mp hT
    exact h t ht
  have hcb := classBlocks_defined tbl (build tasks) hty
  have hrb := relBlocks_defined tbl (build tasks) hty (by
    intro e he k hk
    obtain ⟨T, r⟩ := e
    obtain ⟨_, hr⟩ := (build_entry tasks T r).mp he
    obtain ⟨p, D⟩ := k
    simp only at hk
    rw [hr] at hk
    obtain ⟨t, ht, _, v, hv, d, hd, hD⟩ := (build_rels tasks T p D).mp hk
    -- the dependency `d` found in a parameter of the reachable `t` is itself reachable
    have hd' : d ∈ subQueue tasks := by
      have hdc : d ∈ children t := by
        unfold children
        clear ht
        generalize t.fields = fs at hv
        induction fs with
        | nil => simp at hv
        | cons f rest ih =>
          obtain ⟨n, w⟩ := f
          simp only [findFields, List.mem_append]
          simp only [List.mem_cons, Prod.mk.injEq] at hv
          rcases hv with ⟨_, rfl⟩ | hv
          · exact Or.inl hd
          · exact Or.inr (ih hv)
      have hsub : ∀ q : List Task, t ∈ subQueue q → d ∈ subQueue q := by
        intro q
        -- every sub-term list is closed under `children`; by induction on the visiting fuel
        have key : ∀ n (q : List Task), sizeQueue q ≤ n → t ∈ subQueue q → d ∈ subQueue q := by
          intro n
          induction n with
          | zero =>
            intro q hq htq
            have : q = [] := sizeQueue_zero q (by omega)
            subst this; simp [subQueue] at htq
          | succ n ih =>
            intro q hq htq
            cases q with
            | nil => simp [subQueue] at htq
            | cons a q =>
              rw [sizeQueue_step] at hq
              simp only [subQueue, subTask_eq, List.cons_append, List.mem_cons, List.mem_append] at htq ⊢
              have ihq := ih (q ++ children a) (by omega)
              simp only [subQueue_append, List.mem_append] at ihq
              rcases htq with rfl | htq | htq
              · right; left
                -- d is a child of a = t, hence a sub-term of `children t`
                clear ihq ih
                revert hdc
                generalize children t = c
                intro hdc
                induction c with
                | nil => simp at hdc
                | cons x xs ihx =>
                  simp only [subQueue, subTask_eq, List.cons_append, List.mem_cons, List.mem_append]
                  simp only [List.mem_cons] at hdc
                  rcases hdc with rfl | hdc
                  · exact Or.inl rfl
                  · exact Or.inr (Or.inr (ihx hdc))
              · rcases ihq (Or.inr htq) with h' | h'
                · exact Or.inr (Or.inr h')
                · exact Or.inr (Or.inl h')
              · rcases ihq (Or.inl htq) with h' | h'
                · exact Or.inr (Or.inr h')
                · exact Or.inr (Or.inl h')
        exact key _ q (Nat.le_refl _)
      exact hsub tasks ht
    rw [← hD]
    exact h d hd')
  simp only [buildTaskDiagram, renderStruct]
  cases h1 : classBlocks tbl (build tasks) with
  | none => simp [h1] at hcb
  | some cbs =>
    cases h2 : relBlocks tbl (build tasks) with
    | none => simp [h2] at hrb
    | some rbs => simp

/-! ## non-vacuity: a concrete three-type graph with a nested collection, a shared dependency type and
a parameter that is a single task in one holder and a collection in another -/

def leaf (x : Nat) : Task := .mk x []
/-- `T0(a = T1(), b = (T1(), {"k": (T2(),)}))`, `T0(a = (T1(),), b = scalar)` -/
def demo : List Task :=
  [.mk 0 [("a", .task (leaf 1)), ("b", .tuple [.task (leaf 1), .dict [("k", .tuple [.task (leaf 2)])]])],
   .mk 0 [("a", .tuple [.task (leaf 1)]), ("b", .scalar)]]

example : types (build demo) = [0, 1, 2] := by decide
example : getRels (build demo) 0 = [(("a", 1), true), (("b", 1), true), (("b", 2), true)] := by decide
example : getRels (build (demo.take 1)) 0 = [(("a", 1), false), (("b", 1), true), (("b", 2), true)] := by decide
example : (subQueue demo).length = 6 ∧ sizeQueue demo = 6 := by decide
/-- `many_iff` read right-to-left on the demo: the flag computed by `build` yields a reachable holder -/
example : ∃ t ∈ subQueue demo, t.ty = 0 ∧ ∃ v, Holds t "a" v 1 ∧ v.isTask = false :=
  (many_iff demo 0 "a" 1).mp (by decide)

def demoTable : TypeTable :=
  [(0, { name := "A", fields := [("Any", "a"), ("tuple", "b")], ret := some "int" }),
   (1, { name := "B", fields := [], ret := none }),
   (2, { name := "C", fields := [], ret := none })]

example : buildTaskDiagram demoTable "BT" demo = some
    ("classDiagram\n    direction BT\n\n    class A\n    A : Any a\n    A : tuple b\n    A : run() int\n\n"
     ++ "    class B\n    B : run()\n\n    class C\n    C : run()\n\n\n"
     ++ "    A <-- \"many\" B: a\n    A <-- \"many\" B: b\n    A <-- \"many\" C: b") := by rfl

end Lt.Props.C20
