import LabtechModel.Proofs.ParamsCache
import LabtechModel.Proofs.DumpsInj
/-!
# C07 — Cache keys are deterministic and distinguish every distinct task

Model: `Lt.Params` (`Model/Params.lean`).  `cacheKey sha1 fmt t` is a pure function of the task's
class and parameter values, so "the same key in every process and session" holds in the model by
construction; that the real `cache_key` *is* this function (in this and in freshly started
interpreters with other hash seeds, after pickling, after reconstruction) is what the correspondence
check of `harness/props/c07.py` establishes on every run.

Trusted, not proved: `json.dumps` is injective on the documents `serTask` produces (explicit
hypothesis `hdumps` below; the harness checks `json.loads(pre-image)` type-exactly against the real
serialised document for every generated tree), and SHA-1 does not collide on the inputs at hand
(explicit hypothesis `hsha`).
-/
namespace Lt.Params.C07
open Lt.Params

/-
Full statement (FALSE, see `serValue_collision` / `cacheKey_collision` below):
  ∀ t u, serTask t = serTask u → t = u
-/
/-- On well-formed parameter trees (module-level classes, no dict parameter with a truthy `_is_task` /
`_is_enum` entry, no field called `_is_task` / `__class__`) the serialised document determines the
task: its type (module and qualname), every parameter at every depth, each scalar's *type*
(`1`, `1.0`, `true`, `"1"` stay apart), enum class and member, nested tasks. -/
theorem serTask_injective_partial (t u : Task) (ht : wfTask t = true) (hu : wfTask u = true)
    (h : serTask t = serTask u) : t = u :=
  serTask_injective t u ht hu h

theorem serValue_injective_partial (v w : Value) (hv : wfValue v = true) (hw : wfValue w = true)
    (h : serValue v = serValue w) : v = w :=
  serValue_injective v w hv hw h

/-- the task `m.Leaf(x=1)` as a parameter -/
def witnessTask : Value := .task (.mk ⟨"m", "Leaf"⟩ [("x", .scalar (.int 1))])
/-- the dict `{'_is_task': True, '__class__': 'm.Leaf', 'x': 1}` as a parameter -/
def witnessDict : Value :=
  .dict [("_is_task", .scalar (.bool true)), ("__class__", .scalar (.str "m.Leaf")), ("x", .scalar (.int 1))]

/-- KNOWN FINDING F07 (D10): without `wfValue` injectivity is false — a dict that spells out a
serialised task serialises exactly like the task. -/
theorem serValue_collision : witnessTask ≠ witnessDict ∧ serValue witnessTask = serValue witnessDict := by
  constructor
  · intro h; cases h
  · have : ("m" ++ "." ++ "Leaf" : String) = "m.Leaf" := by decide
    simp [witnessTask, witnessDict, serValue, serTask, serFields, serScalar, ClassRef.ser, this]

/-- … hence two different tasks of one type share their sha1 pre-image and their key, whatever sha1 is. -/
theorem cacheKey_collision (sha1 : String → String) (fmt : CacheFmt) (c : ClassRef) :
    Task.mk c [("p", witnessTask)] ≠ Task.mk c [("p", witnessDict)]
    ∧ cacheKey sha1 fmt (.mk c [("p", witnessTask)]) = cacheKey sha1 fmt (.mk c [("p", witnessDict)]) := by
  constructor
  · intro h
    injection h with _ h
    injection h with h _
    injection h with _ h
    exact serValue_collision.1 h
  · have : serTask (.mk c [("p", witnessTask)]) = serTask (.mk c [("p", witnessDict)]) := by
      simp [serTask, serFields, serValue_collision.2]
    simp [cacheKey, cacheKeyPre, this, Task.cls]

/-- the collision needs an ill-formed tree: the witness dict is exactly what `wfValue` excludes -/
example : wfValue witnessTask = true ∧ wfValue witnessDict = false := by decide

/-- `module ++ "." ++ qualname` determines module and qualname of module-level classes
(same-named classes in different modules, and prefix-named classes, have different class strings) -/
theorem classRef_injective (c₁ c₂ : ClassRef) (h₁ : dotFree c₁.qualname = true) (h₂ : dotFree c₂.qualname = true)
    (h : c₁.ser = c₂.ser) : c₁ = c₂ :=
  classRef_ser_injective c₁ c₂ h₁ h₂ h

/-- the key is `prefix ++ qualname ++ "__" ++ sha1(pre-image)`: two keys of one cache format are equal
exactly when the qualnames are equal and the digests are equal -/
theorem key_parts (sha1 : String → String) (hlen : ∀ x, (sha1 x).toList.length = 40)
    (fmt : CacheFmt) (h : fmt.isNull = false) (t u : Task) :
    cacheKey sha1 fmt t = cacheKey sha1 fmt u
      ↔ t.cls.qualname = u.cls.qualname ∧ sha1 (cacheKeyPre t) = sha1 (cacheKeyPre u) :=
  cacheKey_eq_iff sha1 hlen fmt h t u

/-
Full statement: distinct tasks get distinct keys.  False without `wfTask` (F07), and it rests on two
facts outside the model, spelled out as hypotheses.
-/
/-- distinct well-formed tasks get distinct keys, up to a SHA-1 collision on their two pre-images
(`hsha`) and given that `json.dumps` separates their two documents (`hdumps`, trusted) -/
theorem cacheKey_injective_partial (sha1 : String → String) (hlen : ∀ x, (sha1 x).toList.length = 40)
    (fmt : CacheFmt) (h : fmt.isNull = false) (t u : Task) (ht : wfTask t = true) (hu : wfTask u = true)
    (hsha : sha1 (cacheKeyPre t) = sha1 (cacheKeyPre u) → cacheKeyPre t = cacheKeyPre u)
    (hdumps : dumps (serTask t) = dumps (serTask u) → serTask t = serTask u)
    (hk : cacheKey sha1 fmt t = cacheKey sha1 fmt u) : t = u :=
  serTask_injective t u ht hu (hdumps (hsha ((cacheKey_eq_iff sha1 hlen fmt h t u).mp hk).2))

/-- a raw list and the tuple of the same items are the same parameter -/
theorem normalize_list_tuple (items : List Raw) : normalize (.list items) = normalize (.tuple items) := by
  simp [normalize]

/-- a raw dict and the frozendict of the same items are the same parameter -/
theorem normalize_dict_frozendict (items : List (RawKey × Raw)) : normalize (.dict items) = normalize (.fdict items) := by
  simp [normalize]

/-- … at every depth: respelling any lists as tuples and dicts as frozendicts changes nothing -/
theorem normalize_respelled (r : Raw) : normalize (freeze r) = normalize r :=
  normalize_freeze r

/-- two constructor calls whose arguments differ only in list/tuple and dict/frozendict spelling give
the same task and the same key -/
theorem construct_respelled {D : Type} (env : Env D) (cls : ClassRef) (k : String) (r₁ r₂ : Raw)
    (h : freeze r₁ = freeze r₂) : construct env cls [(k, r₁)] = construct env cls [(k, r₂)] := by
  have : normalize r₁ = normalize r₂ := by rw [← normalize_freeze r₁, h, normalize_freeze r₂]
  simp [construct, normFields, this]

/-- every key of a module-level task type (qualname = an identifier) passes the character test of
`validate_file_path_key` as the source has it now (`Generated.disallowedKeyChars`), and is not empty -/
theorem key_accepted_by_storage (sha1 : String → String) (hhex : ∀ x, ∀ c ∈ (sha1 x).toList, hexChar c = true)
    (fmt : CacheFmt) (hp : ∀ c ∈ fmt.kprefix.toList, keyCharOk c = true)
    (t : Task) (hq : ∀ c ∈ t.cls.qualname.toList, keyCharOk c = true) :
    cacheKey sha1 fmt t ≠ "" ∧ ∀ c ∈ (cacheKey sha1 fmt t).toList, c ∉ Lt.Generated.disallowedKeyChars := by
  by_cases hn : fmt.isNull = true
  · have : cacheKey sha1 fmt t = "null" := by simp [cacheKey, hn]
    rw [this]
    refine ⟨by decide, ?_⟩
    intro c hc
    apply keyCharOk_allowed
    have hall : "null".toList.all keyCharOk = true := by decide
    exact List.all_eq_true.mp hall c hc
  · have hn' : fmt.isNull = false := by simpa using hn
    constructor
    · intro he
      have := congrArg String.toList he
      rw [cacheKey_toList sha1 fmt hn'] at this
      simp at this
    · intro c hc
      rw [cacheKey_toList sha1 fmt hn'] at hc
      apply keyCharOk_allowed
      simp only [List.mem_append, List.mem_cons] at hc
      rcases hc with hc | hc | hc | hc | hc
      · exact hp c hc
      · exact hq c hc
      · subst hc; decide
      · subst hc; decide
      · exact hexChar_ok c (hhex _ c hc)

/-- `PickleCache.KEY_PREFIX` as the source has it now satisfies the prefix hypothesis -/
theorem pickle_prefix_ok : ∀ c ∈ Lt.Generated.pickleKeyPrefix.toList, keyCharOk c = true := by decide

/-- the key travels through pickling unchanged -/
theorem key_after_pickle {D : Type} (env : Env D) (o : TaskObj D) :
    ∃ o', pickleRoundTrip env o = .ok o' ∧ o'.cacheKey = o.cacheKey :=
  ⟨_, pickleRoundTrip_eq env o, rfl⟩

/-- a task reconstructed by `cached_tasks` has the key it was stored under (which is the key the
original task object had when it was saved) -/
theorem key_after_reconstruction {D : Type} (env : Env D) (s : Saved)
    (hfmt : ∀ c, (env.cacheOf c).isNull = false → (env.cacheOf c).name = s.fmt.name → env.cacheOf c = s.fmt)
    (h : sameFormat env s = true) :
    (expected env s).cacheKey = cacheKey env.sha1 s.fmt s.t := by
  rw [expected_key env s hfmt h]; rfl

/-! non-vacuity: a concrete nested task is well-formed, and differs from its neighbours in the
serialisation exactly as the theorem says -/
def exLeaf1 : Task := .mk ⟨"ptasks", "Leaf"⟩ [("x", .scalar (.int 1))]
def exLeafTrue : Task := .mk ⟨"ptasks", "Leaf"⟩ [("x", .scalar (.bool true))]
def exLeaf2 : Task := .mk ⟨"ptasks2", "Leaf"⟩ [("x", .scalar (.int 1))]
def exBox : Task := .mk ⟨"ptasks", "Box"⟩ [("a", .tuple [.task exLeaf1, .enum ⟨"ptasks", "Color"⟩ "RED"]),
  ("b", .dict [("_is_task", .scalar (.int 0)), ("k", .scalar (.float "1.0"))])]

example : wfTask exBox = true ∧ wfTask exLeaf1 = true ∧ wfTask exLeafTrue = true ∧ wfTask exLeaf2 = true := by decide
example : cacheKeyPre exLeaf1 = "{\"_is_task\": true, \"__class__\": \"ptasks.Leaf\", \"x\": 1}" := by decide
example : cacheKeyPre exLeaf1 ≠ cacheKeyPre exLeafTrue ∧ cacheKeyPre exLeaf1 ≠ cacheKeyPre exLeaf2 := by decide
example : ∀ c ∈ "Experiment".toList, keyCharOk c = true := by decide

end Lt.Params.C07

/-! ## `json.dumps` injectivity: proved, no longer assumed

`Proofs/DumpsInj.lean` (+ `DumpsInjNum.lean`, `DumpsInjStr.lean`) proves that the model's `json.dumps`
(`dumps`: default arguments, `ensure_ascii=True`, separators `", "` / `": "`) is injective on every
document whose `.float` leaves carry a float token (`Json.wfTokens`; `wfFloatTok` is a decidable
grammar that accepts every token `float.__repr__` / `NaN` / `Infinity` / `-Infinity`).  The model's
`.float` holds the token *text*, so this is a well-formedness condition of the model's inputs, not a
restriction on Python floats; without it the statement is false in the model (`dumps_needs_wfTokens`).
Strings are unrestricted: every Lean `String` is a sequence of Unicode scalar values.  That IS a
restriction with respect to Python strs, which may hold lone surrogates, and there injectivity really
fails (a high + a low surrogate print like the astral character they spell) — KNOWN FINDING F07c.

Below, the theorems of this file that assumed `hdumps`, restated with that assumption replaced by the
decidable `Task.wfFloats`; SHA-1 collision-freeness on the two pre-images (`hsha`) is the one named
assumption that remains. -/
namespace Lt.Params.C07
open Lt.Params

/-- `json.dumps` is injective: two documents (any strings, any depth, any lengths, objects as
association lists with their order and repetitions) whose float leaves carry float tokens and that
print the same text are the same document -/
theorem dumps_injective_proved (a b : Json) (wa : a.wfTokens = true) (wb : b.wfTokens = true)
    (h : dumps a = dumps b) : a = b :=
  dumps_injective a b wa wb h

/-- a task whose float parameters carry float tokens serialises to a document with float tokens -/
theorem wfFloats_wfTokens (t : Task) (h : t.wfFloats = true) : (serTask t).wfTokens = true :=
  serTask_wfTokens t h

/-- the `hdumps` hypothesis of `cacheKey_injective_partial` holds for any two such tasks -/
theorem hdumps_proved (t u : Task) (ft : t.wfFloats = true) (fu : u.wfFloats = true) :
    dumps (serTask t) = dumps (serTask u) → serTask t = serTask u :=
  serTask_dumps_injective t u ft fu

/-- WITNESS that `wfTokens` is needed in the model: an ill-formed "float token" containing a
delimiter prints like two array elements.  No Python float prints such a token. -/
theorem dumps_needs_wfTokens :
    Json.arr [.float "1, 2"] ≠ Json.arr [.int 1, .int 2] ∧
    dumps (.arr [.float "1, 2"]) = dumps (.arr [.int 1, .int 2]) ∧
    (Json.arr [.float "1, 2"]).wfTokens = false ∧ (Json.arr [.int 1, .int 2]).wfTokens = true :=
  ⟨dumps_collision_illformed_token.1, dumps_collision_illformed_token.2.1,
   dumps_collision_illformed_token.2.2, by decide⟩

/-- the sha1 pre-image (the text `cache_key` hashes) determines a well-formed task: its type, every
parameter at every depth, every scalar's type.  No assumption outside the model. -/
theorem cacheKeyPre_injective_partial_dumps_proved (t u : Task) (ht : wfTask t = true) (hu : wfTask u = true)
    (ft : t.wfFloats = true) (fu : u.wfFloats = true) (h : cacheKeyPre t = cacheKeyPre u) : t = u :=
  serTask_injective t u ht hu (serTask_dumps_injective t u ft fu h)

/-
Full statement: distinct tasks get distinct keys.  False without `wfTask` (F07); `hsha` (no SHA-1
collision on the two pre-images) is a fact outside the model.  `ft` / `fu` only say that the model's
float leaves hold float tokens.
-/
/-- `cacheKey_injective_partial` with the `json.dumps` assumption proved: distinct well-formed tasks
get distinct keys, up to a SHA-1 collision on their two pre-images (`hsha`) -/
theorem cacheKey_injective_partial_dumps_proved (sha1 : String → String)
    (hlen : ∀ x, (sha1 x).toList.length = 40)
    (fmt : CacheFmt) (h : fmt.isNull = false) (t u : Task) (ht : wfTask t = true) (hu : wfTask u = true)
    (ft : t.wfFloats = true) (fu : u.wfFloats = true)
    (hsha : sha1 (cacheKeyPre t) = sha1 (cacheKeyPre u) → cacheKeyPre t = cacheKeyPre u)
    (hk : cacheKey sha1 fmt t = cacheKey sha1 fmt u) : t = u :=
  cacheKey_injective_partial sha1 hlen fmt h t u ht hu hsha (serTask_dumps_injective t u ft fu) hk

/-- the same, read as the property states it: two distinct tasks never share a key -/
theorem distinct_tasks_distinct_keys_partial_dumps_proved (sha1 : String → String)
    (hlen : ∀ x, (sha1 x).toList.length = 40)
    (fmt : CacheFmt) (h : fmt.isNull = false) (t u : Task) (ht : wfTask t = true) (hu : wfTask u = true)
    (ft : t.wfFloats = true) (fu : u.wfFloats = true)
    (hsha : sha1 (cacheKeyPre t) = sha1 (cacheKeyPre u) → cacheKeyPre t = cacheKeyPre u)
    (hne : t ≠ u) : cacheKey sha1 fmt t ≠ cacheKey sha1 fmt u :=
  fun hk => hne (cacheKey_injective_partial_dumps_proved sha1 hlen fmt h t u ht hu ft fu hsha hk)

/-! non-vacuity -/

example : wfFloatTok "1.5" = true ∧ wfFloatTok "-0.0" = true ∧ wfFloatTok "1e+16" = true ∧
    wfFloatTok "1.7976931348623157e+308" = true ∧ wfFloatTok "NaN" = true ∧
    wfFloatTok "-Infinity" = true ∧ wfFloatTok "5e-324" = true := by decide
example : wfFloatTok "15" = false ∧ wfFloatTok "" = false ∧ wfFloatTok "1,2" = false := by decide

/-- the earlier examples of this file have well-formed floats (`exBox` holds the float `1.0`) -/
example : exBox.wfFloats = true ∧ exLeaf1.wfFloats = true ∧ (serTask exBox).wfTokens = true := by decide

/-- two tasks of one type that differ in one float parameter, `Leaf(x=1.5)` and `Leaf(x=1e+16)` -/
def exF1 : Task := .mk ⟨"ptasks", "Leaf"⟩ [("x", .scalar (.float "1.5"))]
def exF2 : Task := .mk ⟨"ptasks", "Leaf"⟩ [("x", .scalar (.float "1e+16"))]

/-- a stand-in digest: 40 characters, determined by the length of the input modulo 41 -/
def exSha (s : String) : String :=
  String.ofList (List.replicate (s.length % 41) 'a' ++ List.replicate (40 - s.length % 41) 'b')

theorem exSha_len (x : String) : (exSha x).toList.length = 40 := by
  simp only [exSha, String.toList_ofList, List.length_append, List.length_replicate]
  have : x.length % 41 < 41 := Nat.mod_lt _ (by decide)
  omega

example : wfTask exF1 = true ∧ wfTask exF2 = true ∧ exF1.wfFloats = true ∧ exF2.wfFloats = true := by decide
example : cacheKeyPre exF1 = "{\"_is_task\": true, \"__class__\": \"ptasks.Leaf\", \"x\": 1.5}" := by decide

/-- a concrete two-task instance of `distinct_tasks_distinct_keys_partial_dumps_proved`: every
hypothesis holds (the stand-in digest does not collide on the two pre-images), so the keys differ -/
example : cacheKey exSha ⟨"PickleCache", "pickle__", false⟩ exF1 ≠
    cacheKey exSha ⟨"PickleCache", "pickle__", false⟩ exF2 :=
  distinct_tasks_distinct_keys_partial_dumps_proved exSha exSha_len _ rfl exF1 exF2 (by decide) (by decide)
    (by decide) (by decide) (by decide) (by simp [exF1, exF2])

end Lt.Params.C07
