import LabtechModel.Proofs.Submit
import LabtechModel.Proofs.InvMain
/-!
# C11 — run_tasks always terminates; it never deadlocks or spins

Proved here:
* `stops_at_once_when_done`: as soon as nothing is pending and nothing is in flight the loop exits
  with *zero* further polling rounds, whatever the rest of the schedule is;
* `productive_wait_shrinks_inflight`: a process-runner wait in which every running worker reports
  (or is found dead) removes all of them from the executor;
* `yield_shrinks_futs`: every yielded outcome, success, raise or death alike, leaves the set of
  tracked futures strictly smaller (a dead worker does not block the run);
* `serial_wait_shrinks_deque`: every serial wait shortens the deque.
Whole runs (from the master invariant of `Proofs/InvLoop.lean` and `Proofs/InvLive.lean`):
* `no_keyerror` (no hypothesis): no reachable state has raised `KeyError`; at every running loop
  head `start_task` succeeds on every ready task and `complete_task` on every tracked future;
* `no_deadlock` (hypotheses `Acyclic`, `FuelOK`, `LimitsPos`): at every reachable resting point
  (after the submit phase of a running loop head) pending work implies a tracked future, and for
  process runners a tracked future implies a running worker — the coordinator never waits on
  nothing;
* `fair_iteration_progress`: every iteration whose wait delivers the first running worker's outcome
  yields at least one more task;
* `terminates` (`Fair` schedule of length ≥ number of planned tasks + 1): the run ends — it
  returns, or raises `LabError` (`terminates_cases`).
`LimitsPos` is necessary: with `max_workers = 0` or a `max_parallel = 0` the model (and the real
coordinator) waits forever (`spins_without_limits`).
-/
namespace Lt.Props.C11
open Lt

theorem stops_at_once_when_done (cfg : Config) (p : Problem) (req : List Tid) (sched : List Choice) (rs : RS)
    (h : loopCond rs = false) : runLoop cfg p req sched rs = rs := by
  cases sched with
  | nil => rfl
  | cons c cs =>
    simp only [runLoop]
    split <;> simp [h]

theorem finish_returns_when_done (req : List Tid) (rs : RS) (h : loopCond rs = false) (hr : rs.status = .running) :
    ∃ r, (finish req rs).status = .returned r := by
  simp [finish, hr, h]

theorem filter_all_true_nil {α} (l : List α) (n : Nat) (f : Nat → Bool) (hf : ∀ i, f i = true) :
    ((enumFrom n l).filter (fun ij => !f ij.1)) = [] := by
  induction l generalizing n with
  | nil => simp [enumFrom]
  | cons x xs ih => simp [enumFrom, hf]

/-- if every running worker's outcome is visible in this wait, none of them stays in the executor -/
theorem productive_wait_shrinks_inflight (rs : RS) (c : Choice) (hf : ∀ i, c.finish i = true) :
    ((enumFrom 0 rs.running).filter (fun ij => !c.finish ij.1)).map (·.2) = [] := by
  rw [filter_all_true_nil _ _ _ hf]; rfl

theorem processYield_futs (cfg : Config) (req : List Tid) (rs : RS) (t : Tid) (o : Outcome) :
    (processYield cfg req rs t o).futs = rs.futs := by
  simp only [processYield]
  cases o <;> (simp only; split <;> rfl)

theorem filter_ne_length_lt (t : Nat) : ∀ (l : List Nat), t ∈ l → (l.filter (· ≠ t)).length < l.length := by
  intro l
  induction l with
  | nil => intro h; simp at h
  | cons a b ih =>
    intro h
    by_cases hab : a = t
    · subst hab
      have := List.length_filter_le (fun x => decide (x ≠ a)) b
      simp only [List.filter_cons, ne_eq, not_true_eq_false, decide_false, Bool.false_eq_true, if_false,
        List.length_cons]
      simp only [ne_eq] at this
      omega
    · have hb : t ∈ b := by
        rcases List.mem_cons.mp h with h1 | h1
        · exact absurd h1.symm hab
        · exact h1
      have := ih hb
      simp only [List.filter_cons, ne_eq, hab, not_false_eq_true, decide_true, if_true, List.length_cons]
      simp only [ne_eq] at this
      omega

/-- handling a yielded outcome of a tracked future, whatever the outcome, shrinks `future_to_task` -/
theorem yield_shrinks_futs (cfg : Config) (req : List Tid) (rs : RS) (t : Tid) (o : Outcome)
    (ht : t ∈ rs.futs) :
    (processYield cfg req { rs with futs := rs.futs.filter (· ≠ t) } t o).futs.length < rs.futs.length := by
  rw [processYield_futs]
  exact filter_ne_length_lt t rs.futs ht

theorem serial_wait_shrinks_deque (cfg : Config) (p : Problem) (req : List Tid) (rs : RS) (h : rs.queued ≠ []) :
    (waitSerial cfg p req rs).queued.length < rs.queued.length := by
  simp only [waitSerial]
  split
  · next hq => simp [hq] at h
  · next j rest hq => rw [processYield_queued]; simp [hq]

def exP : Problem where
  tidOf := fun i => i
  children := fun i => if i = 1 then [0] else []
  requested := [1]
  ty := fun _ => 0
  maxPar := fun _ => some 1
  cacheable := fun _ => false
  fails := fun _ => false
  dies := fun t => t = 0
  behave := fun t _ => some t

/-- a dying dependency still unblocks its dependent and the run ends -/
example : (run { backend := .fork, maxWorkers := 1, contOnFail := true, bust := false } exP [] 3
            [⟨fun _ => false⟩, ⟨fun _ => true⟩, ⟨fun _ => true⟩, ⟨fun _ => true⟩]).status = .returned [(1, 1)] := by
  decide

/-! ## whole runs -/

/-- Python's `KeyError` paths of `start_task` / `complete_task` are never taken -/
theorem no_keyerror (cfg : Config) (p : Problem) (store : Store) (fuel : Nat) (sched : List Choice) :
    let rs := runLoop cfg p (reqTids p) sched (initRS cfg p store fuel)
    rs.status ≠ .raised .keyError ∧ (run cfg p store fuel sched).status ≠ .raised .keyError ∧
    (∀ t ∈ readyTasks p rs.ts, ∃ s', startTask rs.ts t = some s') ∧
    (∀ t ∈ rs.futs, ∃ r, completeTask rs.ts t = some r) := by
  intro rs
  have hc := (reach_all cfg p store fuel sched).1
  refine ⟨hc.noKey, ?_, ?_, ?_⟩
  · rcases run_status_cases cfg p store fuel sched with h | ⟨r, h⟩ | ⟨t, h⟩ <;> rw [h] <;> simp
  · intro t ht
    have := (readyTasks_no_pending_deps p rs.ts t ht).2
    exact ⟨startedTS rs.ts t, by simp [startTask, setRemove, this, startedTS]⟩
  · intro t ht
    obtain ⟨s', rem, h, _⟩ := completeTask_TSInv _ (plan_PI cfg p store fuel) _ rs.ts t hc.ts
      ((hc.futsAct t).mp ht)
    exact ⟨_, h⟩

/-- the coordinator never waits while tasks remain but none is in flight -/
theorem no_deadlock (cfg : Config) (p : Problem) (store : Store) (fuel : Nat) (sched : List Choice)
    (hA : Acyclic p) (hF : FuelOK p fuel) (hL : LimitsPos cfg p) :
    let rs := runLoop cfg p (reqTids p) sched (initRS cfg p store fuel)
    let rs' := submitAll cfg p (readyTasks p rs.ts) rs
    rs.status = .running →
      (rs'.ts.pending ≠ [] → rs'.futs ≠ []) ∧
      (cfg.backend ≠ .serial → rs'.futs ≠ [] → rs'.running ≠ []) :=
  fun hrun => loopHead_no_deadlock cfg p store fuel sched hA hF hL hrun

/-- every iteration from a running loop head with work left whose wait delivers (at least) the
    first running worker's outcome yields at least one more task -/
theorem fair_iteration_progress (cfg : Config) (p : Problem) (store : Store) (fuel : Nat) (sched : List Choice)
    (hA : Acyclic p) (hF : FuelOK p fuel) (hL : LimitsPos cfg p) (c : Choice) (hc : c.finish 0 = true) :
    let rs := runLoop cfg p (reqTids p) sched (initRS cfg p store fuel)
    rs.status = .running → loopCond rs = true →
      (yielded rs).length < (yielded (iteration cfg p (reqTids p) c rs)).length := by
  intro rs hrun hlc
  obtain ⟨hCl, hLt⟩ := plan_good cfg p store fuel hA hF
  exact iteration_progress _ (plan_PI cfg p store fuel) hCl hLt hL c hc
    (loopHead_live cfg p store fuel sched) hrun hlc

/-- with enough fair choices `run_tasks` ends -/
theorem terminates (cfg : Config) (p : Problem) (store : Store) (fuel : Nat) (sched : List Choice)
    (hA : Acyclic p) (hF : FuelOK p fuel) (hL : LimitsPos cfg p) (hfair : Fair sched)
    (hlen : (plan cfg p store fuel).pending.length + 1 ≤ sched.length) :
    (run cfg p store fuel sched).status ≠ .running :=
  run_terminates cfg p store fuel sched hA hF hL hfair hlen

/-- ... and it ends by returning or by raising `LabError` (only without `continue_on_failure`) -/
theorem terminates_cases (cfg : Config) (p : Problem) (store : Store) (fuel : Nat) (sched : List Choice)
    (hA : Acyclic p) (hF : FuelOK p fuel) (hL : LimitsPos cfg p) (hfair : Fair sched)
    (hlen : (plan cfg p store fuel).pending.length + 1 ≤ sched.length) :
    (∃ r, (run cfg p store fuel sched).status = .returned r) ∨
    (cfg.contOnFail = false ∧ ∃ t, (run cfg p store fuel sched).status = .raised (.labError t)) := by
  rcases run_status_cases cfg p store fuel sched with h | h | ⟨t, h⟩
  · exact absurd h (terminates cfg p store fuel sched hA hF hL hfair hlen)
  · exact Or.inl h
  · right
    refine ⟨?_, t, h⟩
    cases hcf : cfg.contOnFail with
    | false => rfl
    | true =>
      have h1 := loopHead_status_cof cfg p store fuel sched hcf
      have h2 : (run cfg p store fuel sched).status = (finish (reqTids p) (loopHead cfg p store fuel sched)).status := rfl
      rw [h2] at h
      simp only [finish, h1] at h
      split at h <;> simp [h1] at h

/-- non-vacuity of the hypotheses and of the conclusion: the diamond example, with a failing task,
    every backend; 5 fair choices suffice for 4 planned tasks -/
example : ∀ be ∈ [Backend.serial, Backend.fork, Backend.spawn],
    let cfg : Config := { invExCfg with backend := be, maxWorkers := 1 }
    let pr : Problem := { invExP with fails := fun t => t == 2 }
    (plan cfg pr [] 4).pending.length + 1 ≤ (List.replicate 5 chooseFirst).length ∧
    (run cfg pr [] 4 (List.replicate 5 chooseFirst)).status = .returned [(3, 4007), (1, 1000)] ∧
    (run cfg pr [] 4 (List.replicate 3 chooseFirst)).status = .running := by decide

/-- the hypotheses of `terminates` / `no_deadlock` are satisfiable together: instantiation on the
    diamond with a failing task, any backend, one worker -/
example (be : Backend) :
    (run { invExCfg with backend := be, maxWorkers := 1 } { invExP with fails := fun t => t == 2 } [] 4
      (List.replicate 5 chooseFirst)).status ≠ .running :=
  terminates _ _ [] 4 _ invExP_acyclic invExP_fuel (invEx_limits be 1 (by decide))
    (fair_replicate 5 chooseFirst rfl) (by cases be <;> decide)

/-- `LimitsPos` cannot be dropped: with `max_workers = 0` the coordinator spins -/
theorem spins_without_limits :
    (run { invExCfg with maxWorkers := 0 } invExP [] 4 (List.replicate 8 chooseAll)).status = .running ∧
    Fair (List.replicate 8 chooseAll) := by
  refine ⟨by decide, fair_replicate _ _ rfl⟩

end Lt.Props.C11
