import LabtechModel.Proofs.Submit
/-!
# C11 — run_tasks always terminates; it never deadlocks or spins

Proved here:
* `stops_at_once_when_done`: as soon as nothing is pending and nothing is in flight the loop exits
  with *zero* further polling rounds, whatever the rest of the schedule is;
* `productive_wait_shrinks_inflight`: a process-runner wait in which every running worker reports
  (or is found dead) removes all of them from the executor;
* `yield_shrinks_futs`: every yielded outcome, success, raise or death alike, leaves the set of
  tracked futures strictly smaller (a dead worker does not block the run);
* `serial_wait_shrinks_deque`: every serial wait shortens the deque.
The no-deadlock statement (pending work implies something in flight) needs the dependency
invariant and acyclicity; see DESIGN.md.
-/
namespace Lt.Props.C11
open Lt

theorem stops_at_once_when_done (cfg : Config) (p : Problem) (req : List Tid) (sched : List Choice) (rs : RS)
    (h : loopCond rs = false) : runLoop cfg p req sched rs = rs := by
  cases sched with
  | nil => rfl
  | cons c cs =>
    simp only [runLoop]
    split <;> simp [h]

theorem finish_returns_when_done (req : List Tid) (rs : RS) (h : loopCond rs = false) (hr : rs.status = .running) :
    ∃ r, (finish req rs).status = .returned r := by
  simp [finish, hr, h]

theorem filter_all_true_nil {α} (l : List α) (n : Nat) (f : Nat → Bool) (hf : ∀ i, f i = true) :
    ((enumFrom n l).filter (fun ij => !f ij.1)) = [] := by
  induction l generalizing n with
  | nil => simp [enumFrom]
  | cons x xs ih => simp [enumFrom, hf]

/-- if every running worker's outcome is visible in this wait, none of them stays in the executor -/
theorem productive_wait_shrinks_inflight (rs : RS) (c : Choice) (hf : ∀ i, c.finish i = true) :
    ((enumFrom 0 rs.running).filter (fun ij => !c.finish ij.1)).map (·.2) = [] := by
  rw [filter_all_true_nil _ _ _ hf]; rfl

theorem processYield_futs (cfg : Config) (req : List Tid) (rs : RS) (t : Tid) (o : Outcome) :
    (processYield cfg req rs t o).futs = rs.futs := by
  simp only [processYield]
  cases o <;> (simp only; split <;> rfl)

theorem filter_ne_length_lt (t : Nat) : ∀ (l : List Nat), t ∈ l → (l.filter (· ≠ t)).length < l.length := by
  intro l
  induction l with
  | nil => intro h; simp at h
  | cons a b ih =>
    intro h
    by_cases hab : a = t
    · subst hab
      have := List.length_filter_le (fun x => decide (x ≠ a)) b
      simp only [List.filter_cons, ne_eq, not_true_eq_false, decide_false, Bool.false_eq_true, if_false,
        List.length_cons]
      simp only [ne_eq] at this
      omega
    · have hb : t ∈ b := by
        rcases List.mem_cons.mp h with h1 | h1
        · exact absurd h1.symm hab
        · exact h1
      have := ih hb
      simp only [List.filter_cons, ne_eq, hab, not_false_eq_true, decide_true, if_true, List.length_cons]
      simp only [ne_eq] at this
      omega

/-- handling a yielded outcome of a tracked future, whatever the outcome, shrinks `future_to_task` -/
theorem yield_shrinks_futs (cfg : Config) (req : List Tid) (rs : RS) (t : Tid) (o : Outcome)
    (ht : t ∈ rs.futs) :
    (processYield cfg req { rs with futs := rs.futs.filter (· ≠ t) } t o).futs.length < rs.futs.length := by
  rw [processYield_futs]
  exact filter_ne_length_lt t rs.futs ht

theorem serial_wait_shrinks_deque (cfg : Config) (p : Problem) (req : List Tid) (rs : RS) (h : rs.queued ≠ []) :
    (waitSerial cfg p req rs).queued.length < rs.queued.length := by
  simp only [waitSerial]
  split
  · next hq => simp [hq] at h
  · next j rest hq => rw [processYield_queued]; simp [hq]

def exP : Problem where
  tidOf := fun i => i
  children := fun i => if i = 1 then [0] else []
  requested := [1]
  ty := fun _ => 0
  maxPar := fun _ => some 1
  cacheable := fun _ => false
  fails := fun _ => false
  dies := fun t => t = 0
  behave := fun t _ => some t

/-- a dying dependency still unblocks its dependent and the run ends -/
example : (run { backend := .fork, maxWorkers := 1, contOnFail := true, bust := false } exP [] 3
            [⟨fun _ => false⟩, ⟨fun _ => true⟩, ⟨fun _ => true⟩, ⟨fun _ => true⟩]).status = .returned [(1, 1)] := by
  decide

end Lt.Props.C11
