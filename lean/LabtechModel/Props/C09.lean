import LabtechModel.Proofs.ParamsCache
import LabtechModel.Proofs.ClassRes
/-!
# C09 — cached_tasks reconstructs every cached task faithfully

Model: `deValue` / `deTask` (the deserialiser as it is now: it recurses into lists and dicts and hands
the result to the task constructor, which normalises), `loadTask` (`load_metadata` prefix and
cache-class checks, `load_task`'s `isinstance` check), `cachedTasks` (key × type loop with its
`break`).  Types are modelled without inheritance.  A store is the list of entries written by
`BaseCache.save`, each by some cache format (`Saved`).
-/
namespace Lt.Params.C09
open Lt.Params

/-- `deserialize_task(serialize_task(t))` rebuilds exactly `t` — for every well-formed `t` whose classes
the registry can import with the same field / member names (any nesting of scalars, enums, tuples,
dicts and tasks). -/
theorem deTask_serTask (reg : Reg) (t : Task) (h : wfTask t = true) (ht : TypedT reg t) :
    deTask reg (serTask t) = .ok t :=
  deTask_serTask' reg t h ht

/-- what the deserialiser itself returns for a nested value: lists and plain dicts (which the
constructor then freezes), nested tasks fully rebuilt -/
theorem deValue_serValue_thaw (reg : Reg) (v : Value) (h : wfValue v = true) (ht : TypedV reg v) :
    deValue reg (serValue v) = .ok (thaw v) ∧ normalize (thaw v) = .ok v :=
  ⟨deValue_serValue reg v h ht, normalize_thaw v⟩

/-- **Exactness.** For every store written by saves of well-formed tasks — any mix of types and cache
formats — and every list of requested types, `cached_tasks` returns, in store order, exactly the
entries whose task's type is requested and whose type's cache is the format that wrote the entry:
each once, as a task object equal to the original (`value`), with the key recomputed by the
constructor, the stored result meta, and no results map / context.
Hypothesis `hfmt`: a cache class name denotes one cache format. -/
theorem cached_tasks_exact {D : Type} (env : Env D) (types : List ClassRef) (saved : List Saved)
    (hwf : ∀ s ∈ saved, wfTask s.t = true ∧ TypedT env.reg s.t)
    (hnn : ∀ s ∈ saved, s.fmt.isNull = false)
    (hfmt : ∀ s ∈ saved, ∀ c, (env.cacheOf c).isNull = false → (env.cacheOf c).name = s.fmt.name → env.cacheOf c = s.fmt) :
    cachedTasks env types (saved.map (Saved.entry env.sha1))
      = .ok ((saved.filter (wanted env types)).map (expected env)) :=
  cachedTasks_saved env types saved hwf hnn hfmt

/-- the returned tasks are the stored ones -/
theorem cached_tasks_values {D : Type} (env : Env D) (types : List ClassRef) (saved : List Saved)
    (hwf : ∀ s ∈ saved, wfTask s.t = true ∧ TypedT env.reg s.t)
    (hnn : ∀ s ∈ saved, s.fmt.isNull = false)
    (hfmt : ∀ s ∈ saved, ∀ c, (env.cacheOf c).isNull = false → (env.cacheOf c).name = s.fmt.name → env.cacheOf c = s.fmt) :
    ∃ os, cachedTasks env types (saved.map (Saved.entry env.sha1)) = .ok os
      ∧ os.map (fun o => (o.value, o.resultMeta)) = (saved.filter (wanted env types)).map (fun s => (s.t, some s.rm)) := by
  refine ⟨_, cachedTasks_saved env types saved hwf hnn hfmt, ?_⟩
  simp [expected, mkObj, Function.comp_def]

/-- a returned task has the key of the entry it came from, so running it finds that entry
(`is_cached` is `storage.exists(task.cache_key)`) -/
theorem returned_key_is_stored_key {D : Type} (env : Env D) (types : List ClassRef) (s : Saved)
    (hfmt : ∀ c, (env.cacheOf c).isNull = false → (env.cacheOf c).name = s.fmt.name → env.cacheOf c = s.fmt)
    (h : wanted env types s = true) : (expected env s).cacheKey = (s.entry env.sha1).key := by
  simp only [wanted, Bool.and_eq_true] at h
  exact expected_key env s hfmt h.2

/-- **No leak between types**, whatever the names: an entry of type `A` is never returned for a
different type `B` — also when `B`'s qualname is a prefix of `A`'s, so that the `startswith` test of
`load_metadata` lets it through (`Exp` / `Experiment`), and also for a same-named class of another module. -/
theorem other_type_never_loads {D : Type} (env : Env D) (s : Saved) (hwf : wfTask s.t = true)
    (hty : TypedT env.reg s.t) (ty : ClassRef) (hne : ty ≠ s.t.cls) :
    loadTask env ty (s.entry env.sha1) = .notFound :=
  loadTask_other env s hwf hty ty hne

/-- an entry written by another cache format than the type's is not returned -/
theorem other_format_not_returned {D : Type} (env : Env D) (types : List ClassRef) (s : Saved)
    (hwf : wfTask s.t = true) (hty : TypedT env.reg s.t) (hnn : s.fmt.isNull = false)
    (hfmt : ∀ c, (env.cacheOf c).isNull = false → (env.cacheOf c).name = s.fmt.name → env.cacheOf c = s.fmt)
    (hother : (env.cacheOf s.t.cls).name ≠ s.fmt.name) :
    cachedTasks env types [s.entry env.sha1] = .ok [] := by
  have := cachedTasks_saved env types [s] (by simpa using ⟨hwf, hty⟩) (by simpa using hnn) (by simpa using hfmt)
  simp only [List.map_cons, List.map_nil] at this
  rw [this]
  simp [wanted, sameFormat, hother]

/-! ### non-vacuity: the tutorial's aggregation shape and the `Exp` / `Experiment` pair -/
def exReg : Reg :=
  { taskFields := fun c => if c.qualname = "Exp" ∨ c.qualname = "Experiment" then some ["p"] else none,
    enumMembers := fun c => if c.qualname = "Color" then some ["RED", "BLUE"] else none }
def pickleFmt : CacheFmt := ⟨"PickleCache", Lt.Generated.pickleKeyPrefix, false⟩
def exEnv : Env Unit := { reg := exReg, cacheOf := fun _ => pickleFmt, sha1 := fun _ => "0", postInit := fun _ => () }
def cExp : ClassRef := ⟨"ptasks", "Exp"⟩
def tExp : Task := .mk cExp [("p", .scalar (.int 1))]
/-- a list of tasks, an enum member and a dict as parameter (what D6 lost) -/
def tExperiment : Task := .mk ⟨"ptasks", "Experiment"⟩
  [("p", .tuple [.task tExp, .enum ⟨"ptasks", "Color"⟩ "BLUE", .dict [("k", .tuple [.task tExp])]])]
def exSaved : List Saved := [⟨tExperiment, pickleFmt, "m1"⟩, ⟨tExp, pickleFmt, "m2"⟩]

theorem ex_hyps : (∀ s ∈ exSaved, wfTask s.t = true ∧ TypedT exEnv.reg s.t) ∧ (∀ s ∈ exSaved, s.fmt.isNull = false)
    ∧ (∀ s ∈ exSaved, ∀ c, (exEnv.cacheOf c).isNull = false → (exEnv.cacheOf c).name = s.fmt.name → exEnv.cacheOf c = s.fmt) := by
  refine ⟨?_, ?_, ?_⟩
  · intro s hs
    simp only [exSaved, List.mem_cons, List.not_mem_nil, or_false] at hs
    rcases hs with rfl | rfl
    · refine ⟨by decide, ?_⟩
      simp [tExperiment, tExp, cExp, TypedT, TypedF, TypedV, TypedL, keys, exEnv, exReg]
    · refine ⟨by decide, ?_⟩
      simp [tExp, cExp, TypedT, TypedF, TypedV, keys, exEnv, exReg]
  · intro s hs
    simp only [exSaved, List.mem_cons, List.not_mem_nil, or_false] at hs
    rcases hs with rfl | rfl <;> rfl
  · intro s hs c _ _
    simp only [exSaved, List.mem_cons, List.not_mem_nil, or_false] at hs
    rcases hs with rfl | rfl <;> rfl

/-- the prefix test alone would let `Exp` open `Experiment`'s entry … -/
example : isPrefix (pickleFmt.kprefix ++ cExp.qualname) (Saved.entry exEnv.sha1 ⟨tExperiment, pickleFmt, "m1"⟩).key = true := by
  decide

/-- … but asking for `Exp` returns only the `Exp` entry, asking for both returns both, each once -/
example : cachedTasks exEnv [cExp] (exSaved.map (Saved.entry exEnv.sha1))
    = .ok [expected exEnv ⟨tExp, pickleFmt, "m2"⟩] := by
  rw [cached_tasks_exact exEnv [cExp] exSaved ex_hyps.1 ex_hyps.2.1 ex_hyps.2.2]
  rfl

example : cachedTasks exEnv [cExp, ⟨"ptasks", "Experiment"⟩, cExp] (exSaved.map (Saved.entry exEnv.sha1))
    = .ok [expected exEnv ⟨tExperiment, pickleFmt, "m1"⟩, expected exEnv ⟨tExp, pickleFmt, "m2"⟩] := by
  rw [cached_tasks_exact exEnv _ exSaved ex_hyps.1 ex_hyps.2.1 ex_hyps.2.2]
  rfl

end Lt.Params.C09

/-!
# C09, class and enum-member resolution (`deserialize_class` since D26, `deserialize_enum` since D27)

`cached_tasks` rebuilds a task from its `__class__` strings.  The theorems above take the class lookup as given
(`Reg`, asked with the pair that splitting at the last dot yields).  The ones below are about the lookup itself, in
the model `Lt.ClassRes` (`Model/ClassRes.lean`): a *world* says which dotted paths are importable modules, which of
them fail with a missing dependency, and which attribute chains exist on a module; `resolve w s` is the algorithm
of `deserialize_class` (import the part before the last dot; on `ModuleNotFoundError` for a prefix of that path move
one component to the attribute path; then `getattr` along the attributes), `resolveOld` the rule before D26.
`memberName` / `enumMember` are `serialize_enum` / `deserialize_enum` on a class's member table (Flag values are
`Nat` bit sets).  The model is tied to the real functions by the `CLSRES` correspondence check (harness/clsres.py).
-/
namespace Lt.Params.C09
open Lt.ClassRes

/-- **(a) Round trip.**  A class with module path `m` (importable: every parent is a module and none fails while it
executes) and qualified name `q` (every prefix of `q` is an attribute chain of `m`) is found again from its
serialisation - PROVIDED no `m ++ q.take i` with `0 < i < |q|` is itself an importable module (`NoShadow`).
Nesting depth is arbitrary. -/
theorem class_roundtrip (w : World) (m q : List String) (hm : m ≠ []) (hq : q ≠ [])
    (hdot : ∀ c ∈ m ++ q, freeOf '.' c = true)
    (himp : Importable w m) (hattr : HasAttrPath w m q) (hns : NoShadow w m q) :
    resolve w (ser m q) = .ok (m, q) := by
  simp only [resolve, ser]
  rw [splitStr_joinStr '.' (m ++ q) (by simp [hm]) hdot]
  exact resolveComps_roundtrip w m q hm himp hq hattr hns

/-- … and `ser m q` is the string the serialisation model above writes (`ClassRef.ser`) for the class with
`__module__ = '.'.join(m)` and `__qualname__ = '.'.join(q)` -/
theorem class_roundtrip_classRef (w : World) (m q : List String) (hm : m ≠ []) (hq : q ≠ [])
    (hdot : ∀ c ∈ m ++ q, freeOf '.' c = true)
    (himp : Importable w m) (hattr : HasAttrPath w m q) (hns : NoShadow w m q) :
    resolve w (ClassRef.ser ⟨joinStr '.' m, joinStr '.' q⟩) = .ok (m, q) := by
  rw [← ser_eq_classRef_ser m q hm hq]
  exact class_roundtrip w m q hm hq hdot himp hattr hns

/-- a package `pkg.mod` whose `__init__` defines `ModelA` with a nested `Variant`, next to a submodule
`pkg/mod/ModelA.py` that defines a class `Variant` of its own -/
def shadowWorld : World where
  modules := [["pkg"], ["pkg", "mod"], ["pkg", "mod", "ModelA"]]
  broken := []
  attrs := [(["pkg", "mod"], [["ModelA"], ["ModelA", "Variant"]]), (["pkg", "mod", "ModelA"], [["Variant"]])]

/-- **(a) WITNESS: `NoShadow` is needed.**  All other hypotheses of `class_roundtrip` hold for the class
`pkg.mod` / `ModelA.Variant` of `shadowWorld`, yet the serialisation resolves to ANOTHER object: the class `Variant`
of the submodule named like the holder class. -/
theorem class_roundtrip_needs_noShadow :
    Importable shadowWorld ["pkg", "mod"] ∧ HasAttrPath shadowWorld ["pkg", "mod"] ["ModelA", "Variant"]
    ∧ ¬ NoShadow shadowWorld ["pkg", "mod"] ["ModelA", "Variant"]
    ∧ resolve shadowWorld (ser ["pkg", "mod"] ["ModelA", "Variant"]) = .ok (["pkg", "mod", "ModelA"], ["Variant"])
    ∧ resolve shadowWorld (ser ["pkg", "mod"] ["ModelA", "Variant"]) ≠ .ok (["pkg", "mod"], ["ModelA", "Variant"]) := by
  refine ⟨?_, ?_, ?_, by decide, by decide⟩
  · intro i h1 h2
    have : i = 1 ∨ i = 2 := by simp at h2; omega
    rcases this with rfl | rfl <;> decide
  · intro i h1 h2
    have : i = 1 ∨ i = 2 := by simp at h2; omega
    rcases this with rfl | rfl <;> decide
  · intro h
    exact absurd (h 1 (by omega) (by simp)) (by decide)

/-- **(b) Conservative extension.**  Whenever the rule before D26 (split at the last dot, import, one `getattr`)
finds an object, the new rule finds the same object … -/
theorem class_old_success_kept (w : World) (s : String) (o : Obj) (h : resolveOld w s = .ok o) :
    resolve w s = .ok o :=
  resolveComps_old_ok w _ o h

/-- … and whenever the new rule fails, the old rule failed with the same error: the repair only turned failures
into successes. -/
theorem class_error_same_as_old (w : World) (s : String) (e : ResErr) (h : resolve w s = .error e) :
    resolveOld w s = .error e :=
  resolveComps_error w _ e h

/-- **(c)** For a module-level class (qualified name without a dot) `NoShadow` is vacuous: the round trip needs only
"`m` is importable and has the attribute". -/
theorem class_roundtrip_toplevel (w : World) (m : List String) (c : String) (hm : m ≠ [])
    (hdot : ∀ x ∈ m ++ [c], freeOf '.' x = true)
    (himp : Importable w m) (hattr : (w.attrsOf m).contains [c] = true) :
    resolve w (ser m [c]) = .ok (m, [c]) := by
  apply class_roundtrip w m [c] hm (by simp) hdot himp
  · intro i h1 h2
    have : i = 1 := by simp at h2; omega
    subst this
    simpa using hattr
  · intro i h1 h2
    simp at h2
    omega

/-- **(d) Strings that name nothing, 1**: the first component is no importable module - `ModuleNotFoundError`, as
under the old rule. -/
theorem class_unknown_top_module (w : World) (s c0 : String) (rest : List String)
    (hs : splitStr '.' s = c0 :: rest) (hrest : rest ≠ []) (h : w.modules.contains [c0] = false) :
    resolve w s = .error .moduleNotFound ∧ resolveOld w s = .error .moduleNotFound := by
  simp only [resolve, resolveOld, hs]
  exact resolveComps_unknown_top w c0 rest hrest h

/-- **(d) Strings that name nothing, 2**: an importable module path followed by one name that is neither an
attribute of the module nor a submodule - `AttributeError`, as under the old rule. -/
theorem class_unknown_attribute (w : World) (s : String) (M : List String) (a : String)
    (hs : splitStr '.' s = M ++ [a]) (hM : M ≠ []) (himp : Importable w M)
    (hattr : (w.attrsOf M).contains [a] = false) (hmod : w.modules.contains (M ++ [a]) = false) :
    resolve w s = .error .attributeError ∧ resolveOld w s = .error .attributeError := by
  simp only [resolve, resolveOld, hs]
  exact resolveComps_unknown_attr w M a hM himp hattr hmod

/-- **(e) D27, round trip.**  For every enum class with distinct identifier member names and every value `v` the
class can build (a member; for a Flag any OR of single-bit members, plus unnamed bits under boundary KEEP),
`deserialize_enum` maps the name `serialize_enum` writes - the member's name, `'R|W'`, `'A|8'`, `'0'` - back to `v`. -/
theorem enum_roundtrip (e : EnumCls) (hwf : e.WF) (v : Nat) (s : String) (h : memberName e v = some s) :
    enumMember e s = .ok v :=
  enumMember_memberName e hwf v s h

/-- a name is written for exactly the values the class can build -/
theorem enum_name_defined (e : EnumCls) (v : Nat) : (memberName e v).isSome = e.valid v :=
  memberName_isSome e v

/-- **(e) D27, injectivity** (the C07 half): two different values of one class never share a serialised name. -/
theorem enum_name_injective (e : EnumCls) (hwf : e.WF) (v₁ v₂ : Nat) (s : String)
    (h₁ : memberName e v₁ = some s) (h₂ : memberName e v₂ = some s) : v₁ = v₂ :=
  memberName_injective e hwf v₁ v₂ s h₁ h₂

/-- `class Bits(IntFlag): A = 1; B = 2` -/
def exBits : EnumCls := ⟨[("A", 1), ("B", 2)], true, true⟩
/-- `class Perm(Flag): R = 1; W = 2; X = 4` -/
def exPerm : EnumCls := ⟨[("R", 1), ("W", 2), ("X", 4)], true, false⟩

theorem exBits_wf : exBits.WF := ⟨by decide, by decide⟩
theorem exPerm_wf : exPerm.WF := ⟨by decide, by decide⟩

/-- **(e) WITNESS: the naming before D27 is not injective** - the empty flag and a value of unnamed bits both have
the name `None` -, and a combination's name could not be looked up again. -/
theorem enum_old_naming_defective :
    memberNameOld exBits 0 = some none ∧ memberNameOld exBits 8 = some none
    ∧ memberNameOld exPerm 3 = some (some "R|W") ∧ enumMemberOld exPerm "R|W" = .error .keyError := by
  decide

/-! ### non-vacuity -/

/-- a module `pkg.leaf` with `class C: class D: class E`, a package `pkg` with `Top.In`, a module with a missing
dependency -/
def exWorld : World where
  modules := [["pkg"], ["pkg", "leaf"], ["pkg", "brk"]]
  broken := [["pkg", "brk"]]
  attrs := [(["pkg"], [["Top"], ["Top", "In"]]), (["pkg", "leaf"], [["C"], ["C", "D"], ["C", "D", "E"]]),
            (["pkg", "brk"], [["B"]])]

/-- three levels deep: found by the new rule, not by the old one -/
example : resolve exWorld "pkg.leaf.C.D.E" = .ok (["pkg", "leaf"], ["C", "D", "E"])
    ∧ resolveOld exWorld "pkg.leaf.C.D.E" = .error .moduleNotFound := by decide
/-- … which is `class_roundtrip` at this instance -/
example : resolve exWorld (ser ["pkg", "leaf"] ["C", "D", "E"]) = .ok (["pkg", "leaf"], ["C", "D", "E"]) := by
  apply class_roundtrip exWorld _ _ (by simp) (by simp) (by decide)
  · intro i h1 h2
    have : i = 1 ∨ i = 2 := by simp at h2; omega
    rcases this with rfl | rfl <;> decide
  · intro i h1 h2
    have : i = 1 ∨ i = 2 ∨ i = 3 := by simp at h2; omega
    rcases this with rfl | rfl | rfl <;> decide
  · intro i h1 h2
    have : i = 1 ∨ i = 2 := by simp at h2; omega
    rcases this with rfl | rfl <;> decide
/-- which error surfaces: `AttributeError` when nothing was shifted, the `ModuleNotFoundError` otherwise; a missing
dependency is re-raised; a module path resolves to the module; no dot is a `ValueError` -/
example : resolve exWorld "pkg.leaf.X" = .error .attributeError
    ∧ resolve exWorld "pkg.leaf.C.D.X" = .error .moduleNotFound
    ∧ resolve exWorld "nope.C" = .error .moduleNotFound
    ∧ resolve exWorld "pkg.brk.B" = .error .moduleNotFound
    ∧ resolve exWorld "pkg.leaf" = .ok (["pkg", "leaf"], [])
    ∧ resolve exWorld "pkg" = .error .valueError := by decide
/-- in `shadowWorld` the holder class itself is still found (the `fromlist` import prefers the attribute) -/
example : resolve shadowWorld "pkg.mod.ModelA" = .ok (["pkg", "mod"], ["ModelA"]) := by decide
/-- Flag names as D27 writes and reads them -/
example : memberName exPerm 3 = some "R|W" ∧ memberName exBits 9 = some "A|8" ∧ memberName exBits 0 = some "0"
    ∧ memberName exBits 8 = some "8" ∧ memberName exPerm 8 = none
    ∧ enumMember exPerm "R|W" = .ok 3 ∧ enumMember exBits "A|8" = .ok 9 ∧ enumMember exBits "0" = .ok 0
    ∧ enumMember exBits "A|Q" = .error .keyError ∧ enumMember exPerm "R|8" = .error .keyError := by decide

end Lt.Params.C09
