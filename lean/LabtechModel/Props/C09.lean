import LabtechModel.Proofs.ParamsCache
/-!
# C09 — cached_tasks reconstructs every cached task faithfully

Model: `deValue` / `deTask` (the deserialiser as it is now: it recurses into lists and dicts and hands
the result to the task constructor, which normalises), `loadTask` (`load_metadata` prefix and
cache-class checks, `load_task`'s `isinstance` check), `cachedTasks` (key × type loop with its
`break`).  Types are modelled without inheritance.  A store is the list of entries written by
`BaseCache.save`, each by some cache format (`Saved`).
-/
namespace Lt.Params.C09
open Lt.Params

/-- `deserialize_task(serialize_task(t))` rebuilds exactly `t` — for every well-formed `t` whose classes
the registry can import with the same field / member names (any nesting of scalars, enums, tuples,
dicts and tasks). -/
theorem deTask_serTask (reg : Reg) (t : Task) (h : wfTask t = true) (ht : TypedT reg t) :
    deTask reg (serTask t) = .ok t :=
  deTask_serTask' reg t h ht

/-- what the deserialiser itself returns for a nested value: lists and plain dicts (which the
constructor then freezes), nested tasks fully rebuilt -/
theorem deValue_serValue_thaw (reg : Reg) (v : Value) (h : wfValue v = true) (ht : TypedV reg v) :
    deValue reg (serValue v) = .ok (thaw v) ∧ normalize (thaw v) = .ok v :=
  ⟨deValue_serValue reg v h ht, normalize_thaw v⟩

/-- **Exactness.** For every store written by saves of well-formed tasks — any mix of types and cache
formats — and every list of requested types, `cached_tasks` returns, in store order, exactly the
entries whose task's type is requested and whose type's cache is the format that wrote the entry:
each once, as a task object equal to the original (`value`), with the key recomputed by the
constructor, the stored result meta, and no results map / context.
Hypothesis `hfmt`: a cache class name denotes one cache format. -/
theorem cached_tasks_exact {D : Type} (env : Env D) (types : List ClassRef) (saved : List Saved)
    (hwf : ∀ s ∈ saved, wfTask s.t = true ∧ TypedT env.reg s.t)
    (hnn : ∀ s ∈ saved, s.fmt.isNull = false)
    (hfmt : ∀ s ∈ saved, ∀ c, (env.cacheOf c).isNull = false → (env.cacheOf c).name = s.fmt.name → env.cacheOf c = s.fmt) :
    cachedTasks env types (saved.map (Saved.entry env.sha1))
      = .ok ((saved.filter (wanted env types)).map (expected env)) :=
  cachedTasks_saved env types saved hwf hnn hfmt

/-- the returned tasks are the stored ones -/
theorem cached_tasks_values {D : Type} (env : Env D) (types : List ClassRef) (saved : List Saved)
    (hwf : ∀ s ∈ saved, wfTask s.t = true ∧ TypedT env.reg s.t)
    (hnn : ∀ s ∈ saved, s.fmt.isNull = false)
    (hfmt : ∀ s ∈ saved, ∀ c, (env.cacheOf c).isNull = false → (env.cacheOf c).name = s.fmt.name → env.cacheOf c = s.fmt) :
    ∃ os, cachedTasks env types (saved.map (Saved.entry env.sha1)) = .ok os
      ∧ os.map (fun o => (o.value, o.resultMeta)) = (saved.filter (wanted env types)).map (fun s => (s.t, some s.rm)) := by
  refine ⟨_, cachedTasks_saved env types saved hwf hnn hfmt, ?_⟩
  simp [expected, mkObj, Function.comp_def]

/-- a returned task has the key of the entry it came from, so running it finds that entry
(`is_cached` is `storage.exists(task.cache_key)`) -/
theorem returned_key_is_stored_key {D : Type} (env : Env D) (types : List ClassRef) (s : Saved)
    (hfmt : ∀ c, (env.cacheOf c).isNull = false → (env.cacheOf c).name = s.fmt.name → env.cacheOf c = s.fmt)
    (h : wanted env types s = true) : (expected env s).cacheKey = (s.entry env.sha1).key := by
  simp only [wanted, Bool.and_eq_true] at h
  exact expected_key env s hfmt h.2

/-- **No leak between types**, whatever the names: an entry of type `A` is never returned for a
different type `B` — also when `B`'s qualname is a prefix of `A`'s, so that the `startswith` test of
`load_metadata` lets it through (`Exp` / `Experiment`), and also for a same-named class of another module. -/
theorem other_type_never_loads {D : Type} (env : Env D) (s : Saved) (hwf : wfTask s.t = true)
    (hty : TypedT env.reg s.t) (ty : ClassRef) (hne : ty ≠ s.t.cls) :
    loadTask env ty (s.entry env.sha1) = .notFound :=
  loadTask_other env s hwf hty ty hne

/-- an entry written by another cache format than the type's is not returned -/
theorem other_format_not_returned {D : Type} (env : Env D) (types : List ClassRef) (s : Saved)
    (hwf : wfTask s.t = true) (hty : TypedT env.reg s.t) (hnn : s.fmt.isNull = false)
    (hfmt : ∀ c, (env.cacheOf c).isNull = false → (env.cacheOf c).name = s.fmt.name → env.cacheOf c = s.fmt)
    (hother : (env.cacheOf s.t.cls).name ≠ s.fmt.name) :
    cachedTasks env types [s.entry env.sha1] = .ok [] := by
  have := cachedTasks_saved env types [s] (by simpa using ⟨hwf, hty⟩) (by simpa using hnn) (by simpa using hfmt)
  simp only [List.map_cons, List.map_nil] at this
  rw [this]
  simp [wanted, sameFormat, hother]

/-! ### non-vacuity: the tutorial's aggregation shape and the `Exp` / `Experiment` pair -/
def exReg : Reg :=
  { taskFields := fun c => if c.qualname = "Exp" ∨ c.qualname = "Experiment" then some ["p"] else none,
    enumMembers := fun c => if c.qualname = "Color" then some ["RED", "BLUE"] else none }
def pickleFmt : CacheFmt := ⟨"PickleCache", Lt.Generated.pickleKeyPrefix, false⟩
def exEnv : Env Unit := { reg := exReg, cacheOf := fun _ => pickleFmt, sha1 := fun _ => "0", postInit := fun _ => () }
def cExp : ClassRef := ⟨"ptasks", "Exp"⟩
def tExp : Task := .mk cExp [("p", .scalar (.int 1))]
/-- a list of tasks, an enum member and a dict as parameter (what D6 lost) -/
def tExperiment : Task := .mk ⟨"ptasks", "Experiment"⟩
  [("p", .tuple [.task tExp, .enum ⟨"ptasks", "Color"⟩ "BLUE", .dict [("k", .tuple [.task tExp])]])]
def exSaved : List Saved := [⟨tExperiment, pickleFmt, "m1"⟩, ⟨tExp, pickleFmt, "m2"⟩]

theorem ex_hyps : (∀ s ∈ exSaved, wfTask s.t = true ∧ TypedT exEnv.reg s.t) ∧ (∀ s ∈ exSaved, s.fmt.isNull = false)
    ∧ (∀ s ∈ exSaved, ∀ c, (exEnv.cacheOf c).isNull = false → (exEnv.cacheOf c).name = s.fmt.name → exEnv.cacheOf c = s.fmt) := by
  refine ⟨?_, ?_, ?_⟩
  · intro s hs
    simp only [exSaved, List.mem_cons, List.not_mem_nil, or_false] at hs
    rcases hs with rfl | rfl
    · refine ⟨by decide, ?_⟩
      simp [tExperiment, tExp, cExp, TypedT, TypedF, TypedV, TypedL, keys, exEnv, exReg]
    · refine ⟨by decide, ?_⟩
      simp [tExp, cExp, TypedT, TypedF, TypedV, keys, exEnv, exReg]
  · intro s hs
    simp only [exSaved, List.mem_cons, List.not_mem_nil, or_false] at hs
    rcases hs with rfl | rfl <;> rfl
  · intro s hs c _ _
    simp only [exSaved, List.mem_cons, List.not_mem_nil, or_false] at hs
    rcases hs with rfl | rfl <;> rfl

/-- the prefix test alone would let `Exp` open `Experiment`'s entry … -/
example : isPrefix (pickleFmt.kprefix ++ cExp.qualname) (Saved.entry exEnv.sha1 ⟨tExperiment, pickleFmt, "m1"⟩).key = true := by
  decide

/-- … but asking for `Exp` returns only the `Exp` entry, asking for both returns both, each once -/
example : cachedTasks exEnv [cExp] (exSaved.map (Saved.entry exEnv.sha1))
    = .ok [expected exEnv ⟨tExp, pickleFmt, "m2"⟩] := by
  rw [cached_tasks_exact exEnv [cExp] exSaved ex_hyps.1 ex_hyps.2.1 ex_hyps.2.2]
  rfl

example : cachedTasks exEnv [cExp, ⟨"ptasks", "Experiment"⟩, cExp] (exSaved.map (Saved.entry exEnv.sha1))
    = .ok [expected exEnv ⟨tExperiment, pickleFmt, "m1"⟩, expected exEnv ⟨tExp, pickleFmt, "m2"⟩] := by
  rw [cached_tasks_exact exEnv _ exSaved ex_hyps.1 ex_hyps.2.1 ex_hyps.2.2]
  rfl

end Lt.Params.C09
