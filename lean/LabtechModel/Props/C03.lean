import LabtechModel.Proofs.Ready
import LabtechModel.Proofs.Plan
/-!
# C03 — Each distinct task runs at most once, and only if its result is needed

Proved here: the work list built by planning holds every equality class once (`plan_pending_nodup`);
starting a task removes it from the work list and nothing ever re-inserts it
(`started_leaves_pending`, `complete_keeps_pending`), so an equality class is submitted at most once
per run (`submit_phase_nodup`); a cached task contributes no dependencies to the plan
(`cached_not_expanded`); an already processed object is skipped (`processed_object_skipped`);
`run_or_load_task` either loads or executes, never both (`load_xor_exec`).
-/
namespace Lt.Props.C03
open Lt

theorem plan_pending_nodup (cfg : Config) (p : Problem) (store : Store) (fuel : Nat) :
    (plan cfg p store fuel).pending.Nodup := (plan_PI cfg p store fuel).nodupP

/-- `start_task` removes the task from the work list -/
theorem started_leaves_pending (s s' : TS) (t : Tid) (h : startTask s t = some s') :
    t ∉ s'.pending ∧ ∀ x, x ∈ s'.pending → x ∈ s.pending := by
  obtain ⟨_, hs⟩ := startTask_some s s' t h
  subst hs
  constructor
  · simp
  · intro x hx; simp only [List.mem_filter] at hx; exact hx.1

/-- `complete_task` never touches the work list -/
theorem complete_keeps_pending (s s' : TS) (t : Tid) (rem : List Tid)
    (h : completeTask s t = some (s', rem)) : s'.pending = s.pending := by
  obtain ⟨_, _, _, _, _, _, _, hs, _⟩ := completeTask_some s s' t rem h
  subst hs; rfl

/-- the tasks submitted in one submit phase are pairwise distinct and all come from the work list -/
theorem submit_phase_nodup (p : Problem) (s : TS) (h : s.pending.Nodup) :
    (readyTasks p s).Nodup ∧ ∀ t ∈ readyTasks p s, t ∈ s.pending :=
  ⟨(readyAux_sublist p s s.pending _).nodup h, fun t ht => (readyTasks_no_pending_deps p s t ht).2⟩

/-- planning does not look at the parameters of a task that will be served from cache -/
theorem cached_not_expanded (p : Problem) (uc : Tid → Bool) (i : Iid) (rest : List Iid) (s : TS) (acc : List Iid)
    (hi : i ∉ s.processed) (hc : uc (p.tidOf i) = true) :
    processLevel p uc (i :: rest) s acc
      = processLevel p uc rest (insertTask i (p.tidOf i) [] { s with processed := s.processed ++ [i] }) acc := by
  simp [processLevel, hi, hc, dedup]

/-- an object that was already processed (identity) is skipped -/
theorem processed_object_skipped (p : Problem) (uc : Tid → Bool) (i : Iid) (rest : List Iid) (s : TS) (acc : List Iid)
    (hi : i ∈ s.processed) :
    processLevel p uc (i :: rest) s acc = processLevel p uc rest s acc := by
  simp [processLevel, hi]

/-- one job contributes exactly one record: a load when served from cache, an execution otherwise -/
theorem load_xor_exec (p : Problem) (ts : TS) (j : Job) :
    (j.useCache = true → runEvents p ts j = [Ev.load j.tid]) ∧
    (j.useCache = false → ∃ seen, runEvents p ts j = [Ev.exec j.tid seen]) := by
  constructor
  · intro h; simp [runEvents, h]
  · intro h; exact ⟨reads p (repr0 ts j.tid) (j.snap.getD []), by simp [runEvents, h]⟩

/-- every object recorded for a task is marked with the outcome when the task completes successfully -/
theorem instances_marked (cfg : Config) (req : List Tid) (rs : RS) (t : Tid) (v : Val)
    (hst : (processYield cfg req rs t (.ok v)).status = .running) :
    ∀ i ∈ rs.ts.instances t, i ∈ (processYield cfg req rs t (.ok v)).marked := by
  intro i hi
  simp only [processYield] at hst ⊢
  split at hst
  · simp at hst
  · next s' rem hc => simp [hi]

example : (plan { backend := .serial, maxWorkers := 1, contOnFail := true, bust := false }
    { tidOf := fun i => if i = 2 then 0 else i, children := fun i => if i = 1 then [0, 2] else [],
      requested := [1, 0], ty := fun _ => 0, maxPar := fun _ => none, cacheable := fun _ => true,
      fails := fun _ => false, dies := fun _ => false, behave := fun t _ => some t } [] 4).instances 0 = [0, 2] := by
  decide

end Lt.Props.C03
