import LabtechModel.Proofs.Ready
import LabtechModel.Proofs.Plan
import LabtechModel.Proofs.InvMain
/-!
# C03 — Each distinct task runs at most once, and only if its result is needed

Proved here: the work list built by planning holds every equality class once (`plan_pending_nodup`);
starting a task removes it from the work list and nothing ever re-inserts it
(`started_leaves_pending`, `complete_keeps_pending`), so an equality class is submitted at most once
per run (`submit_phase_nodup`); a cached task contributes no dependencies to the plan
(`cached_not_expanded`); an already processed object is skipped (`processed_object_skipped`);
`run_or_load_task` either loads or executes, never both (`load_xor_exec`).

Whole runs (every problem, configuration, cache pre-state, fuel and schedule; no hypothesis; from
the master invariant of `Proofs/InvLoop.lean`):
* `submitted_at_most_once`: the `submit` events of a run (and of every loop-head state) have
  pairwise distinct tids — an equality class is handed to the runner at most once per run;
* `yielded_at_most_once`: likewise every task is yielded (finished/failed/died) at most once, and
  only after it was submitted (`yielded_was_submitted`);
* `nothing_outside_plan`: every submitted tid is in the work list built by planning, which
  (`plan_only_reachable`) holds only tids of requested objects and of objects found in the parameters
  of planned, not-cached objects.
* `executed_at_most_once`: the worker records of a run (`exec t …` = `run()` executed, `load t` =
  loaded from cache) carry pairwise distinct tasks: every equality class is executed or loaded at
  most once, never both (`no_second_execution` in explicit form); while the coordinator is running,
  every task with a worker record has been yielded, hence was submitted (`executed_was_yielded`).
Not covered at whole-run level: that a `load` record appears exactly for the tasks cached beforehand.
-/
namespace Lt.Props.C03
open Lt

theorem plan_pending_nodup (cfg : Config) (p : Problem) (store : Store) (fuel : Nat) :
    (plan cfg p store fuel).pending.Nodup := (plan_PI cfg p store fuel).nodupP

/-- `start_task` removes the task from the work list -/
theorem started_leaves_pending (s s' : TS) (t : Tid) (h : startTask s t = some s') :
    t ∉ s'.pending ∧ ∀ x, x ∈ s'.pending → x ∈ s.pending := by
  obtain ⟨_, hs⟩ := startTask_some s s' t h
  subst hs
  constructor
  · simp
  · intro x hx; simp only [List.mem_filter] at hx; exact hx.1

/-- `complete_task` never touches the work list -/
theorem complete_keeps_pending (s s' : TS) (t : Tid) (rem : List Tid)
    (h : completeTask s t = some (s', rem)) : s'.pending = s.pending := by
  obtain ⟨_, _, _, _, _, _, _, hs, _⟩ := completeTask_some s s' t rem h
  subst hs; rfl

/-- the tasks submitted in one submit phase are pairwise distinct and all come from the work list -/
theorem submit_phase_nodup (p : Problem) (s : TS) (h : s.pending.Nodup) :
    (readyTasks p s).Nodup ∧ ∀ t ∈ readyTasks p s, t ∈ s.pending :=
  ⟨(readyAux_sublist p s s.pending _).nodup h, fun t ht => (readyTasks_no_pending_deps p s t ht).2⟩

/-- planning does not look at the parameters of a task that will be served from cache -/
theorem cached_not_expanded (p : Problem) (uc : Tid → Bool) (i : Iid) (rest : List Iid) (s : TS) (acc : List Iid)
    (hi : i ∉ s.processed) (hc : uc (p.tidOf i) = true) :
    processLevel p uc (i :: rest) s acc
      = processLevel p uc rest (insertTask i (p.tidOf i) [] { s with processed := s.processed ++ [i] }) acc := by
  simp [processLevel, hi, hc, dedup]

/-- an object that was already processed (identity) is skipped -/
theorem processed_object_skipped (p : Problem) (uc : Tid → Bool) (i : Iid) (rest : List Iid) (s : TS) (acc : List Iid)
    (hi : i ∈ s.processed) :
    processLevel p uc (i :: rest) s acc = processLevel p uc rest s acc := by
  simp [processLevel, hi]

/-- one job contributes exactly one record: a load when served from cache, an execution otherwise -/
theorem load_xor_exec (p : Problem) (ts : TS) (j : Job) :
    (j.useCache = true → runEvents p ts j = [Ev.load j.tid]) ∧
    (j.useCache = false → ∃ seen, runEvents p ts j = [Ev.exec j.tid seen]) := by
  constructor
  · intro h; simp [runEvents, h]
  · intro h; exact ⟨reads p (repr0 ts j.tid) (j.snap.getD []), by simp [runEvents, h]⟩

/-- every object recorded for a task is marked with the outcome when the task completes successfully -/
theorem instances_marked (cfg : Config) (req : List Tid) (rs : RS) (t : Tid) (v : Val)
    (hst : (processYield cfg req rs t (.ok v)).status = .running) :
    ∀ i ∈ rs.ts.instances t, i ∈ (processYield cfg req rs t (.ok v)).marked := by
  intro i hi
  simp only [processYield] at hst ⊢
  split at hst
  · simp at hst
  · next s' rem hc => simp [hi]

example : (plan { backend := .serial, maxWorkers := 1, contOnFail := true, bust := false }
    { tidOf := fun i => if i = 2 then 0 else i, children := fun i => if i = 1 then [0, 2] else [],
      requested := [1, 0], ty := fun _ => 0, maxPar := fun _ => none, cacheable := fun _ => true,
      fails := fun _ => false, dies := fun _ => false, behave := fun t _ => some t } [] 4).instances 0 = [0, 2] := by
  decide

/-! ## whole runs -/

/-- the `submit` events of a run have pairwise distinct tids -/
theorem submitted_at_most_once (cfg : Config) (p : Problem) (store : Store) (fuel : Nat) (sched : List Choice) :
    (submittedOf (run cfg p store fuel sched).trace).Nodup ∧
    (submittedOf (runLoop cfg p (reqTids p) sched (initRS cfg p store fuel)).trace).Nodup := by
  rw [run_trace]
  exact ⟨loopHead_submitted_nodup cfg p store fuel sched, loopHead_submitted_nodup cfg p store fuel sched⟩

/-- reading of `submittedOf`: it lists the tid of each `submit` event, in order -/
theorem submittedOf_spec (tr : List Ev) (t : Tid) : t ∈ submittedOf tr ↔ ∃ uc, Ev.submit t uc ∈ tr :=
  mem_submittedOf tr t

/-- explicit form: two different positions of the trace never submit the same task -/
theorem no_second_submit (cfg : Config) (p : Problem) (store : Store) (fuel : Nat) (sched : List Choice)
    (a b c : List Ev) (t : Tid) (uc uc' : Bool) :
    (run cfg p store fuel sched).trace ≠ a ++ Ev.submit t uc :: b ++ Ev.submit t uc' :: c := by
  intro h
  have hnd := (submitted_at_most_once cfg p store fuel sched).1
  rw [h] at hnd
  simp only [submittedOf, List.filterMap_append, List.filterMap_cons, evSubmit, List.append_assoc] at hnd
  rw [List.nodup_append] at hnd
  have := hnd.2.1
  rw [List.cons_append, List.nodup_cons] at this
  apply this.1
  simp

theorem yielded_at_most_once (cfg : Config) (p : Problem) (store : Store) (fuel : Nat) (sched : List Choice) :
    (yieldedOf (run cfg p store fuel sched).trace).Nodup := by
  rw [run_trace]; exact loopHead_yielded_nodup cfg p store fuel sched

theorem yielded_was_submitted (cfg : Config) (p : Problem) (store : Store) (fuel : Nat) (sched : List Choice)
    (t : Tid) (o : Outcome) (h : Ev.yield t o ∈ (run cfg p store fuel sched).trace) :
    ∃ uc, Ev.submit t uc ∈ (run cfg p store fuel sched).trace := by
  rw [run_trace] at h ⊢
  exact loopHead_yielded_submitted cfg p store fuel sched t o h

/-- every submitted task is in the plan -/
theorem nothing_outside_plan (cfg : Config) (p : Problem) (store : Store) (fuel : Nat) (sched : List Choice)
    (t : Tid) (uc : Bool) (h : Ev.submit t uc ∈ (run cfg p store fuel sched).trace) :
    t ∈ (plan cfg p store fuel).pending := by
  rw [run_trace] at h
  exact loopHead_submitted_planned cfg p store fuel sched t uc h

/-- the plan's dependency edges only come from parameters of planned objects; a cached task
    contributes none -/
theorem plan_only_reachable (cfg : Config) (p : Problem) (store : Store) (fuel : Nat) (t d : Tid)
    (h : d ∈ (plan cfg p store fuel).ddeps t) :
    useCache cfg p store t = false ∧
    ∃ i, i ∈ (plan cfg p store fuel).instances t ∧ ∃ c ∈ p.children i, p.tidOf c = d := by
  refine ⟨?_, plan_ddeps_sound cfg p store fuel t d h⟩
  cases hc : useCache cfg p store t with
  | false => rfl
  | true => rw [plan_cached_no_deps cfg p store fuel t hc] at h; simp at h

/-- every equality class is executed or loaded at most once per run -/
theorem executed_at_most_once (cfg : Config) (p : Problem) (store : Store) (fuel : Nat) (sched : List Choice) :
    (ranOf (run cfg p store fuel sched).trace).Nodup := by
  rw [run_trace]; exact loopHead_ran_nodup cfg p store fuel sched

/-- reading of `ranOf`: it lists the task of each `exec` / `load` record, in order -/
theorem ranOf_spec (tr : List Ev) (t : Tid) :
    t ∈ ranOf tr ↔ (Ev.load t ∈ tr ∨ ∃ seen, Ev.exec t seen ∈ tr) := mem_ranOf tr t

/-- explicit form: no two worker records of a run belong to the same task -/
theorem no_second_execution (cfg : Config) (p : Problem) (store : Store) (fuel : Nat) (sched : List Choice)
    (a b c : List Ev) (e e' : Ev) (t : Tid) (he : evRan e = some t) (he' : evRan e' = some t) :
    (run cfg p store fuel sched).trace ≠ a ++ e :: b ++ e' :: c := by
  intro h
  have hnd := executed_at_most_once cfg p store fuel sched
  rw [h] at hnd
  simp only [ranOf, List.filterMap_append, List.filterMap_cons, he, he', List.append_assoc] at hnd
  rw [List.nodup_append] at hnd
  have := hnd.2.1
  rw [List.cons_append, List.nodup_cons] at this
  apply this.1
  simp

theorem executed_was_yielded (cfg : Config) (p : Problem) (store : Store) (fuel : Nat) (sched : List Choice)
    (hrun : (runLoop cfg p (reqTids p) sched (initRS cfg p store fuel)).status = .running) :
    ∀ t ∈ ranOf (runLoop cfg p (reqTids p) sched (initRS cfg p store fuel)).trace,
      t ∈ yieldedOf (runLoop cfg p (reqTids p) sched (initRS cfg p store fuel)).trace :=
  loopHead_ran_yielded cfg p store fuel sched hrun

/-- non-vacuity: with a warm cache for 1, the run executes 0, 2, 3 and loads 1, each once -/
example :
    ranOf (run invExCfg invExP [(1, 1000)] 4 (List.replicate 5 chooseAll)).trace = [1, 0, 2, 3] ∧
    Ev.load 1 ∈ (run invExCfg invExP [(1, 1000)] 4 (List.replicate 5 chooseAll)).trace ∧
    Ev.exec 3 [some 1000, some 2000] ∈ (run invExCfg invExP [(1, 1000)] 4 (List.replicate 5 chooseAll)).trace := by
  decide

/-- non-vacuity: the diamond with the duplicated object 4 (= task 0): four submits, one per class -/
example :
    submittedOf (run invExCfg invExP [] 4 (List.replicate 5 chooseAll)).trace = [0, 1, 2, 3] ∧
    (plan invExCfg invExP [] 4).pending = [3, 1, 2, 0] ∧
    (plan invExCfg invExP [] 4).instances 0 = [0, 4] := by decide

/-- non-vacuity with a warm cache: task 1 is cached, so it is loaded and its dependency edge is not
    planned; 0 still runs because 2 needs it -/
example :
    submittedOf (run invExCfg invExP [(1, 1000)] 4 (List.replicate 5 chooseAll)).trace = [1, 0, 2, 3] ∧
    (plan invExCfg invExP [(1, 1000)] 4).ddeps 1 = [] ∧
    Ev.load 1 ∈ (run invExCfg invExP [(1, 1000)] 4 (List.replicate 5 chooseAll)).trace := by decide

end Lt.Props.C03
