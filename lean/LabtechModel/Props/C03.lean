import LabtechModel.Proofs.Ready
import LabtechModel.Proofs.Plan
import LabtechModel.Proofs.InvMain
import LabtechModel.Proofs.Inv2Need
import LabtechModel.Proofs.IntrOnce
/-!
# C03 — Each distinct task runs at most once, and only if its result is needed

Proved here: the work list built by planning holds every equality class once (`plan_pending_nodup`);
starting a task removes it from the work list and nothing ever re-inserts it
(`started_leaves_pending`, `complete_keeps_pending`), so an equality class is submitted at most once
per run (`submit_phase_nodup`); a cached task contributes no dependencies to the plan
(`cached_not_expanded`); an already processed object is skipped (`processed_object_skipped`);
`run_or_load_task` either loads or executes, never both (`load_xor_exec`).

Whole runs (every problem, configuration, cache pre-state, fuel and schedule; no hypothesis; from
the master invariant of `Proofs/InvLoop.lean`):
* `submitted_at_most_once`: the `submit` events of a run (and of every loop-head state) have
  pairwise distinct tids — an equality class is handed to the runner at most once per run;
* `yielded_at_most_once`: likewise every task is yielded (finished/failed/died) at most once, and
  only after it was submitted (`yielded_was_submitted`);
* `nothing_outside_plan`: every submitted tid is in the work list built by planning, which
  (`plan_only_reachable`) holds only tids of requested objects and of objects found in the parameters
  of planned, not-cached objects.
* `executed_at_most_once`: the worker records of a run (`exec t …` = `run()` executed, `load t` =
  loaded from cache) carry pairwise distinct tasks: every equality class is executed or loaded at
  most once, never both (`no_second_execution` in explicit form); while the coordinator is running,
  every task with a worker record has been yielded, hence was submitted (`executed_was_yielded`).
Load-or-execute and the planning closure (from `FlagInv` of `Proofs/Inv2Flag.lean` and
`Proofs/Inv2Need.lean`; every problem, configuration, cache pre-state, fuel, schedule; failures allowed):
* `use_cache_fixed_at_plan_time`: the `use_cache` flag of every `submit` is the one planning computed
  from the cache pre-state (only a task's own execution writes its entry, and it is executed at most once);
* `load_implies_cached`, `exec_implies_not_cached`, `worker_record_planned` (no hypothesis) and
  `loaded_iff_cached_beforehand` (for runs that returned, planned tasks whose worker did not die): a
  task is loaded iff it was cached beforehand and not busted, executed iff it was not;
* `plan_is_needed_closure` (no hypothesis) / `needed_is_planned` (`Acyclic`, `InstOK`, `FuelOK`): the work
  list is exactly the set of tasks of `NeededObj` objects — the requested objects closed under "objects
  in the parameters of a needed object whose task is NOT cached beforehand";
* `cached_deps_untouched`: a task none of whose objects is needed — in particular one reachable from
  the requested tasks only through tasks cached beforehand — is not planned, never submitted, never
  loaded, never executed, never yielded.
At every instant of every interrupted run (statement-level model M10, `Proofs/IntrOnce.lean`; no hypothesis):
* `submitted_at_most_once_every_instant`, `executed_at_most_once_every_instant`,
  `nothing_outside_plan_every_instant` (each with `_handler`, `_second`), `once_and_planned_interrupted`,
  `no_second_submit_or_execution_interrupted`, `submitted_left_work_list_every_instant`: the whole-run
  statements for the state after EVERY primitive prefix of the main stream, of the first Ctrl-C handler
  entered at any instant, and of the second handler entered at any instant of the first.
-/
namespace Lt.Props.C03
open Lt

theorem plan_pending_nodup (cfg : Config) (p : Problem) (store : Store) (fuel : Nat) :
    (plan cfg p store fuel).pending.Nodup := (plan_PI cfg p store fuel).nodupP

/-- `start_task` removes the task from the work list -/
theorem started_leaves_pending (s s' : TS) (t : Tid) (h : startTask s t = some s') :
    t ∉ s'.pending ∧ ∀ x, x ∈ s'.pending → x ∈ s.pending := by
  obtain ⟨_, hs⟩ := startTask_some s s' t h
  subst hs
  constructor
  · simp
  · intro x hx; simp only [List.mem_filter] at hx; exact hx.1

/-- `complete_task` never touches the work list -/
theorem complete_keeps_pending (s s' : TS) (t : Tid) (rem : List Tid)
    (h : completeTask s t = some (s', rem)) : s'.pending = s.pending := by
  obtain ⟨_, _, _, _, _, _, _, hs, _⟩ := completeTask_some s s' t rem h
  subst hs; rfl

/-- the tasks submitted in one submit phase are pairwise distinct and all come from the work list -/
theorem submit_phase_nodup (p : Problem) (s : TS) (h : s.pending.Nodup) :
    (readyTasks p s).Nodup ∧ ∀ t ∈ readyTasks p s, t ∈ s.pending :=
  ⟨(readyAux_sublist p s s.pending _).nodup h, fun t ht => (readyTasks_no_pending_deps p s t ht).2⟩

/-- planning does not look at the parameters of a task that will be served from cache -/
theorem cached_not_expanded (p : Problem) (uc : Tid → Bool) (i : Iid) (rest : List Iid) (s : TS) (acc : List Iid)
    (hi : i ∉ s.processed) (hc : uc (p.tidOf i) = true) :
    processLevel p uc (i :: rest) s acc
      = processLevel p uc rest (insertTask i (p.tidOf i) [] { s with processed := s.processed ++ [i] }) acc := by
  simp [processLevel, hi, hc, dedup]

/-- an object that was already processed (identity) is skipped -/
theorem processed_object_skipped (p : Problem) (uc : Tid → Bool) (i : Iid) (rest : List Iid) (s : TS) (acc : List Iid)
    (hi : i ∈ s.processed) :
    processLevel p uc (i :: rest) s acc = processLevel p uc rest s acc := by
  simp [processLevel, hi]

/-- one job contributes exactly one record: a load when served from cache, an execution otherwise -/
theorem load_xor_exec (p : Problem) (ts : TS) (j : Job) :
    (j.useCache = true → runEvents p ts j = [Ev.load j.tid]) ∧
    (j.useCache = false → ∃ seen, runEvents p ts j = [Ev.exec j.tid seen]) := by
  constructor
  · intro h; simp [runEvents, h]
  · intro h; exact ⟨reads p (repr0 ts j.tid) (j.snap.getD []), by simp [runEvents, h]⟩

/-- every object recorded for a task is marked with the outcome when the task completes successfully -/
theorem instances_marked (cfg : Config) (req : List Tid) (rs : RS) (t : Tid) (v : Val)
    (hst : (processYield cfg req rs t (.ok v)).status = .running) :
    ∀ i ∈ rs.ts.instances t, i ∈ (processYield cfg req rs t (.ok v)).marked := by
  intro i hi
  simp only [processYield] at hst ⊢
  split at hst
  · simp at hst
  · next s' rem hc => simp [hi]

example : (plan { backend := .serial, maxWorkers := 1, contOnFail := true, bust := false }
    { tidOf := fun i => if i = 2 then 0 else i, children := fun i => if i = 1 then [0, 2] else [],
      requested := [1, 0], ty := fun _ => 0, maxPar := fun _ => none, cacheable := fun _ => true,
      fails := fun _ => false, dies := fun _ => false, behave := fun t _ => some t } [] 4).instances 0 = [0, 2] := by
  decide

/-! ## whole runs -/

/-- the `submit` events of a run have pairwise distinct tids -/
theorem submitted_at_most_once (cfg : Config) (p : Problem) (store : Store) (fuel : Nat) (sched : List Choice) :
    (submittedOf (run cfg p store fuel sched).trace).Nodup ∧
    (submittedOf (runLoop cfg p (reqTids p) sched (initRS cfg p store fuel)).trace).Nodup := by
  rw [run_trace]
  exact ⟨loopHead_submitted_nodup cfg p store fuel sched, loopHead_submitted_nodup cfg p store fuel sched⟩

/-- reading of `submittedOf`: it lists the tid of each `submit` event, in order -/
theorem submittedOf_spec (tr : List Ev) (t : Tid) : t ∈ submittedOf tr ↔ ∃ uc, Ev.submit t uc ∈ tr :=
  mem_submittedOf tr t

/-- explicit form: two different positions of the trace never submit the same task -/
theorem no_second_submit (cfg : Config) (p : Problem) (store : Store) (fuel : Nat) (sched : List Choice)
    (a b c : List Ev) (t : Tid) (uc uc' : Bool) :
    (run cfg p store fuel sched).trace ≠ a ++ Ev.submit t uc :: b ++ Ev.submit t uc' :: c := by
  intro h
  have hnd := (submitted_at_most_once cfg p store fuel sched).1
  rw [h] at hnd
  simp only [submittedOf, List.filterMap_append, List.filterMap_cons, evSubmit, List.append_assoc] at hnd
  rw [List.nodup_append] at hnd
  have := hnd.2.1
  rw [List.cons_append, List.nodup_cons] at this
  apply this.1
  simp

theorem yielded_at_most_once (cfg : Config) (p : Problem) (store : Store) (fuel : Nat) (sched : List Choice) :
    (yieldedOf (run cfg p store fuel sched).trace).Nodup := by
  rw [run_trace]; exact loopHead_yielded_nodup cfg p store fuel sched

theorem yielded_was_submitted (cfg : Config) (p : Problem) (store : Store) (fuel : Nat) (sched : List Choice)
    (t : Tid) (o : Outcome) (h : Ev.yield t o ∈ (run cfg p store fuel sched).trace) :
    ∃ uc, Ev.submit t uc ∈ (run cfg p store fuel sched).trace := by
  rw [run_trace] at h ⊢
  exact loopHead_yielded_submitted cfg p store fuel sched t o h

/-- every submitted task is in the plan -/
theorem nothing_outside_plan (cfg : Config) (p : Problem) (store : Store) (fuel : Nat) (sched : List Choice)
    (t : Tid) (uc : Bool) (h : Ev.submit t uc ∈ (run cfg p store fuel sched).trace) :
    t ∈ (plan cfg p store fuel).pending := by
  rw [run_trace] at h
  exact loopHead_submitted_planned cfg p store fuel sched t uc h

/-- the plan's dependency edges only come from parameters of planned objects; a cached task
    contributes none -/
theorem plan_only_reachable (cfg : Config) (p : Problem) (store : Store) (fuel : Nat) (t d : Tid)
    (h : d ∈ (plan cfg p store fuel).ddeps t) :
    useCache cfg p store t = false ∧
    ∃ i, i ∈ (plan cfg p store fuel).instances t ∧ ∃ c ∈ p.children i, p.tidOf c = d := by
  refine ⟨?_, plan_ddeps_sound cfg p store fuel t d h⟩
  cases hc : useCache cfg p store t with
  | false => rfl
  | true => rw [plan_cached_no_deps cfg p store fuel t hc] at h; simp at h

/-- every equality class is executed or loaded at most once per run -/
theorem executed_at_most_once (cfg : Config) (p : Problem) (store : Store) (fuel : Nat) (sched : List Choice) :
    (ranOf (run cfg p store fuel sched).trace).Nodup := by
  rw [run_trace]; exact loopHead_ran_nodup cfg p store fuel sched

/-- reading of `ranOf`: it lists the task of each `exec` / `load` record, in order -/
theorem ranOf_spec (tr : List Ev) (t : Tid) :
    t ∈ ranOf tr ↔ (Ev.load t ∈ tr ∨ ∃ seen, Ev.exec t seen ∈ tr) := mem_ranOf tr t

/-- explicit form: no two worker records of a run belong to the same task -/
theorem no_second_execution (cfg : Config) (p : Problem) (store : Store) (fuel : Nat) (sched : List Choice)
    (a b c : List Ev) (e e' : Ev) (t : Tid) (he : evRan e = some t) (he' : evRan e' = some t) :
    (run cfg p store fuel sched).trace ≠ a ++ e :: b ++ e' :: c := by
  intro h
  have hnd := executed_at_most_once cfg p store fuel sched
  rw [h] at hnd
  simp only [ranOf, List.filterMap_append, List.filterMap_cons, he, he', List.append_assoc] at hnd
  rw [List.nodup_append] at hnd
  have := hnd.2.1
  rw [List.cons_append, List.nodup_cons] at this
  apply this.1
  simp

theorem executed_was_yielded (cfg : Config) (p : Problem) (store : Store) (fuel : Nat) (sched : List Choice)
    (hrun : (runLoop cfg p (reqTids p) sched (initRS cfg p store fuel)).status = .running) :
    ∀ t ∈ ranOf (runLoop cfg p (reqTids p) sched (initRS cfg p store fuel)).trace,
      t ∈ yieldedOf (runLoop cfg p (reqTids p) sched (initRS cfg p store fuel)).trace :=
  loopHead_ran_yielded cfg p store fuel sched hrun

/-- non-vacuity: with a warm cache for 1, the run executes 0, 2, 3 and loads 1, each once -/
example :
    ranOf (run invExCfg invExP [(1, 1000)] 4 (List.replicate 5 chooseAll)).trace = [1, 0, 2, 3] ∧
    Ev.load 1 ∈ (run invExCfg invExP [(1, 1000)] 4 (List.replicate 5 chooseAll)).trace ∧
    Ev.exec 3 [some 1000, some 2000] ∈ (run invExCfg invExP [(1, 1000)] 4 (List.replicate 5 chooseAll)).trace := by
  decide

/-- non-vacuity: the diamond with the duplicated object 4 (= task 0): four submits, one per class -/
example :
    submittedOf (run invExCfg invExP [] 4 (List.replicate 5 chooseAll)).trace = [0, 1, 2, 3] ∧
    (plan invExCfg invExP [] 4).pending = [3, 1, 2, 0] ∧
    (plan invExCfg invExP [] 4).instances 0 = [0, 4] := by decide

/-- non-vacuity with a warm cache: task 1 is cached, so it is loaded and its dependency edge is not
    planned; 0 still runs because 2 needs it -/
example :
    submittedOf (run invExCfg invExP [(1, 1000)] 4 (List.replicate 5 chooseAll)).trace = [1, 0, 2, 3] ∧
    (plan invExCfg invExP [(1, 1000)] 4).ddeps 1 = [] ∧
    Ev.load 1 ∈ (run invExCfg invExP [(1, 1000)] 4 (List.replicate 5 chooseAll)).trace := by decide

/-! ## load-or-execute is decided by the cache pre-state; cached tasks hide their dependencies -/

/-- `use_cache` at submit time = `use_cache` at plan time -/
theorem use_cache_fixed_at_plan_time (cfg : Config) (p : Problem) (store : Store) (fuel : Nat)
    (sched : List Choice) (t : Tid) (uc : Bool) (h : Ev.submit t uc ∈ (run cfg p store fuel sched).trace) :
    uc = useCache cfg p store t := by
  rw [run_trace] at h
  exact (run_flagTr cfg p store fuel sched).subOK t uc h

/-- a task is loaded only if it was cached beforehand (and the cache is not busted) -/
theorem load_implies_cached (cfg : Config) (p : Problem) (store : Store) (fuel : Nat)
    (sched : List Choice) (t : Tid) (h : Ev.load t ∈ (run cfg p store fuel sched).trace) :
    useCache cfg p store t = true ∧ t ∈ (plan cfg p store fuel).pending := by
  rw [run_trace] at h
  exact ⟨(run_flagTr cfg p store fuel sched).loadOK t h,
    loopHead_ran_planned cfg p store fuel sched t ((mem_ranOf _ _).mpr (Or.inl h))⟩

/-- a task is executed only if it was not cached beforehand (or the cache is busted) -/
theorem exec_implies_not_cached (cfg : Config) (p : Problem) (store : Store) (fuel : Nat)
    (sched : List Choice) (t : Tid) (seen : List (Option Val))
    (h : Ev.exec t seen ∈ (run cfg p store fuel sched).trace) :
    useCache cfg p store t = false ∧ t ∈ (plan cfg p store fuel).pending := by
  rw [run_trace] at h
  exact ⟨(run_flagTr cfg p store fuel sched).execOK t seen h,
    loopHead_ran_planned cfg p store fuel sched t ((mem_ranOf _ _).mpr (Or.inr ⟨seen, h⟩))⟩

/-- every worker record (load or execution) belongs to a planned task -/
theorem worker_record_planned (cfg : Config) (p : Problem) (store : Store) (fuel : Nat)
    (sched : List Choice) (t : Tid) (h : t ∈ ranOf (run cfg p store fuel sched).trace) :
    t ∈ (plan cfg p store fuel).pending := by
  rw [run_trace] at h
  exact loopHead_ran_planned cfg p store fuel sched t h

/-- in a run that returned, a planned task whose worker did not die was loaded iff it was cached
    beforehand, executed iff it was not (`useCache` = not busted ∧ persisting cache ∧ entry present) -/
theorem loaded_iff_cached_beforehand (cfg : Config) (p : Problem) (store : Store) (fuel : Nat)
    (sched : List Choice) (r : List (Tid × Val)) (hret : (run cfg p store fuel sched).status = .returned r)
    (t : Tid) (ht : t ∈ (plan cfg p store fuel).pending) (hd : diesIn cfg p t = false) :
    (Ev.load t ∈ (run cfg p store fuel sched).trace ↔ useCache cfg p store t = true) ∧
    ((∃ seen, Ev.exec t seen ∈ (run cfg p store fuel sched).trace) ↔ useCache cfg p store t = false) := by
  have hF := run_flagTr cfg p store fuel sched
  have hY := (returned_all_yielded cfg p store fuel sched r hret t).mp ht
  have hran := (mem_ranOf _ _).mp (hF.ranAll t (Or.inl hY) hd)
  rw [run_trace]
  constructor
  · refine ⟨hF.loadOK t, fun huc => ?_⟩
    rcases hran with h | ⟨seen, h⟩
    · exact h
    · have := hF.execOK t seen h
      rw [huc] at this; cases this
  · refine ⟨fun ⟨seen, h⟩ => hF.execOK t seen h, fun huc => ?_⟩
    rcases hran with h | h
    · have := hF.loadOK t h
      rw [huc] at this; cases this
    · exact h

/-- reading of `diesIn`: a worker can die only under a process backend -/
theorem diesIn_spec (cfg : Config) (p : Problem) (t : Tid) :
    diesIn cfg p t = true ↔ (cfg.backend ≠ .serial ∧ p.dies t = true) := by
  simp only [diesIn]
  split <;> simp_all

/-- the work list holds only tasks of needed objects (no hypothesis) -/
theorem plan_is_needed_closure (cfg : Config) (p : Problem) (store : Store) (fuel : Nat) (t : Tid)
    (h : t ∈ (plan cfg p store fuel).pending) : ∃ i, NeededObj cfg p store i ∧ p.tidOf i = t :=
  plan_pending_needed cfg p store fuel t h

/-- and, given acyclicity, consistent objects and enough fuel, all of them -/
theorem needed_is_planned (cfg : Config) (p : Problem) (store : Store) (fuel : Nat)
    (hA : Acyclic p) (hI : InstOK p) (hF : FuelOK p fuel) (i : Iid) (h : NeededObj cfg p store i) :
    p.tidOf i ∈ (plan cfg p store fuel).pending :=
  needed_planned cfg p store fuel hA hI hF i h

/-- a task none of whose objects is reachable from the requested objects through NOT-cached tasks is
    left completely alone: not planned, not submitted, not loaded, not executed, not yielded -/
theorem cached_deps_untouched (cfg : Config) (p : Problem) (store : Store) (fuel : Nat)
    (sched : List Choice) (t : Tid) (hn : ¬ ∃ i, NeededObj cfg p store i ∧ p.tidOf i = t) :
    t ∉ (plan cfg p store fuel).pending ∧
    (∀ uc, Ev.submit t uc ∉ (run cfg p store fuel sched).trace) ∧
    Ev.load t ∉ (run cfg p store fuel sched).trace ∧
    (∀ seen, Ev.exec t seen ∉ (run cfg p store fuel sched).trace) ∧
    (∀ o, Ev.yield t o ∉ (run cfg p store fuel sched).trace) := by
  have hnp : t ∉ (plan cfg p store fuel).pending := fun h => hn (plan_pending_needed cfg p store fuel t h)
  refine ⟨hnp, ?_, ?_, ?_, ?_⟩
  · intro uc h; exact hnp (nothing_outside_plan cfg p store fuel sched t uc h)
  · intro h; exact hnp (load_implies_cached cfg p store fuel sched t h).2
  · intro seen h; exact hnp (exec_implies_not_cached cfg p store fuel sched t seen h).2
  · intro o h
    obtain ⟨uc, hs⟩ := yielded_was_submitted cfg p store fuel sched t o h
    exact hnp (nothing_outside_plan cfg p store fuel sched t uc hs)

/-- chain 2 → 1 → 0 with 1 cached beforehand: only 2 is requested -/
def chainP : Problem where
  tidOf := fun i => i
  children := fun i => if i = 2 then [1] else if i = 1 then [0] else []
  requested := [2]
  ty := fun _ => 0
  maxPar := fun _ => none
  cacheable := fun _ => true
  fails := fun _ => false
  dies := fun _ => false
  behave := fun t vs => some (10 * t + (vs.map (fun o => o.getD 7)).foldl (· + ·) 0)

/-- non-vacuity of `cached_deps_untouched`: 0 is reachable only through the cached task 1 -/
theorem chainP_zero_not_needed : ¬ ∃ i, NeededObj invExCfg chainP [(1, 77)] i ∧ chainP.tidOf i = 0 := by
  have key : ∀ i, NeededObj invExCfg chainP [(1, 77)] i → i = 2 ∨ i = 1 := by
    intro i h
    induction h with
    | req hi => left; simpa [chainP] using hi
    | @dep i c _ huc hc ih =>
      rcases ih with h | h
      · subst h; right; simpa [chainP] using hc
      · subst h
        have : useCache invExCfg chainP [(1, 77)] (chainP.tidOf 1) = true := by decide
        rw [this] at huc; cases huc
  rintro ⟨i, hi, h0⟩
  have h0' : i = 0 := h0
  rcases key i hi with h | h <;> (rw [h] at h0'; exact absurd h0' (by decide))

example :
    (plan invExCfg chainP [(1, 77)] 3).pending = [2, 1] ∧
    ranOf (run invExCfg chainP [(1, 77)] 3 (List.replicate 3 chooseAll)).trace = [1, 2] ∧
    Ev.load 1 ∈ (run invExCfg chainP [(1, 77)] 3 (List.replicate 3 chooseAll)).trace ∧
    Ev.exec 2 [some 77] ∈ (run invExCfg chainP [(1, 77)] 3 (List.replicate 3 chooseAll)).trace ∧
    submittedOf (run invExCfg chainP [(1, 77)] 3 (List.replicate 3 chooseAll)).trace = [1, 2] ∧
    (run invExCfg chainP [(1, 77)] 3 (List.replicate 3 chooseAll)).status = .returned [(2, 97)] ∧
    useCache invExCfg chainP [(1, 77)] 1 = true ∧ useCache invExCfg chainP [(1, 77)] 2 = false := by decide

example : 0 ∉ (plan invExCfg chainP [(1, 77)] 3).pending ∧
    Ev.load 0 ∉ (run invExCfg chainP [(1, 77)] 3 (List.replicate 3 chooseAll)).trace :=
  let h := cached_deps_untouched invExCfg chainP [(1, 77)] 3 (List.replicate 3 chooseAll) 0 chainP_zero_not_needed
  ⟨h.1, h.2.2.1⟩

/-- the hypotheses of `loaded_iff_cached_beforehand` are satisfiable -/
example : Ev.load 1 ∈ (run invExCfg chainP [(1, 77)] 3 (List.replicate 3 chooseAll)).trace :=
  (loaded_iff_cached_beforehand invExCfg chainP [(1, 77)] 3 (List.replicate 3 chooseAll) [(2, 97)] (by decide)
    1 (by decide) (by decide)).1.mpr (by decide)

/-- why `loaded_iff_cached_beforehand` needs "the worker did not die": under a process backend a
    worker that dies leaves no record at all (task 2 is planned, not cached, delivered as `died`,
    and neither loaded nor executed); the serial runner has no worker that could die -/
example :
    let pr : Problem := { invExP with dies := fun t => t == 2 }
    (run invExCfg pr [] 4 (List.replicate 5 chooseAll)).status = .returned [(3, 4007), (1, 1000)] ∧
    2 ∈ (plan invExCfg pr [] 4).pending ∧ useCache invExCfg pr [] 2 = false ∧
    ranOf (run invExCfg pr [] 4 (List.replicate 5 chooseAll)).trace = [0, 1, 3] ∧
    ranOf (run { invExCfg with backend := .serial } pr [] 4 (List.replicate 5 chooseAll)).trace = [0, 1, 2, 3] := by
  decide

/-! ## at EVERY INSTANT of EVERY INTERRUPTED run (statement granularity, model M10)

`mainAt … k`: the state after the first `k` primitives (Python statements) of the main loop's stream,
for EVERY `k` — mid-submit-phase, inside `_start_processes` (where a future is in the pending map AND in
the running map), mid-`complete_task`; `handlerAt … k ds m`: after `m` further primitives of the
`KeyboardInterrupt` handler (`cancel`, drain along `ds`) entered at instant `k`; `secondAt … k ds m m2`:
after `m2` primitives of the second handler (`cancel`, `stop`, one last processing round) entered at
instant `m` of the first. (Same definitions as in `Props/C04.lean`.) The invariant `OI` of
`Proofs/IntrOnce.lean` holds in all of them, for every problem, configuration, cache pre-state, fuel,
schedule and drain schedule; no hypothesis. -/

/-- state after the first `k` primitives of the main loop's stream (`k` beyond its end: the end) -/
abbrev mainAt (cfg : Config) (p : Problem) (store : Store) (fuel : Nat) (sched : List Choice) (k : Nat) : IS :=
  stateAt cfg p store fuel sched k

/-- state after `m` primitives of the first interrupt handler entered at instant `k` -/
abbrev handlerAt (cfg : Config) (p : Problem) (store : Store) (fuel : Nat) (sched : List Choice) (k : Nat)
    (ds : List Choice) (m : Nat) : IS :=
  runPrims cfg p ((handlerPrims cfg p (reqTids p) ds (mainAt cfg p store fuel sched k)).take m)
    (mainAt cfg p store fuel sched k)

/-- state after `m2` primitives of the second handler entered at instant `m` of the first -/
abbrev secondAt (cfg : Config) (p : Problem) (store : Store) (fuel : Nat) (sched : List Choice) (k : Nat)
    (ds : List Choice) (m m2 : Nat) : IS :=
  runPrims cfg p ((secondPrims cfg p (reqTids p) (handlerAt cfg p store fuel sched k ds m)).take m2)
    (handlerAt cfg p store fuel sched k ds m)

/-- the states of `interruptedRun` (at the interrupt, and final) are among these -/
theorem interruptedRun_states (cfg : Config) (p : Problem) (store : Store) (fuel : Nat)
    (sched ds : List Choice) (k : Nat) (k2 : Option Nat) :
    (∃ k', (interruptedRun cfg p store fuel sched k ds k2).atIntr = mainAt cfg p store fuel sched k') ∧
    ((∃ k', (interruptedRun cfg p store fuel sched k ds k2).final = mainAt cfg p store fuel sched k') ∨
     (∃ m, (interruptedRun cfg p store fuel sched k ds k2).final = handlerAt cfg p store fuel sched k ds m) ∨
     (∃ m m2, (interruptedRun cfg p store fuel sched k ds k2).final = secondAt cfg p store fuel sched k ds m m2)) :=
  interruptedRun_cases store fuel sched ds k k2

/-- SUBMITTED AT MOST ONCE, AT EVERY INSTANT of the main loop: after ANY number `k` of primitives the
    `submit` events of the trace carry pairwise distinct tasks -/
theorem submitted_at_most_once_every_instant (cfg : Config) (p : Problem) (store : Store) (fuel : Nat)
    (sched : List Choice) (k : Nat) : (submittedOf (mainAt cfg p store fuel sched k).rs.trace).Nodup :=
  (stateAt_OI store fuel sched k).subNd

/-- … and at every instant of the interrupt handler entered at any instant `k` -/
theorem submitted_at_most_once_every_instant_handler (cfg : Config) (p : Problem) (store : Store) (fuel : Nat)
    (sched : List Choice) (k : Nat) (ds : List Choice) (m : Nat) :
    (submittedOf (handlerAt cfg p store fuel sched k ds m).rs.trace).Nodup :=
  (handlerStateAt_OI store fuel sched k ds m).subNd

/-- … and at every instant of the second handler (double interrupt at any `k`, `m`) -/
theorem submitted_at_most_once_every_instant_second (cfg : Config) (p : Problem) (store : Store) (fuel : Nat)
    (sched : List Choice) (k : Nat) (ds : List Choice) (m m2 : Nat) :
    (submittedOf (secondAt cfg p store fuel sched k ds m m2).rs.trace).Nodup :=
  (secondStateAt_OI store fuel sched k ds m m2).subNd

/-- EXECUTED AT MOST ONCE, AT EVERY INSTANT of the main loop: the worker records (`exec` = `run()`
    executed, `load` = loaded from cache) carry pairwise distinct tasks -/
theorem executed_at_most_once_every_instant (cfg : Config) (p : Problem) (store : Store) (fuel : Nat)
    (sched : List Choice) (k : Nat) : (ranOf (mainAt cfg p store fuel sched k).rs.trace).Nodup :=
  (stateAt_OI store fuel sched k).ranNd

/-- … during the drain after one Ctrl-C -/
theorem executed_at_most_once_every_instant_handler (cfg : Config) (p : Problem) (store : Store) (fuel : Nat)
    (sched : List Choice) (k : Nat) (ds : List Choice) (m : Nat) :
    (ranOf (handlerAt cfg p store fuel sched k ds m).rs.trace).Nodup :=
  (handlerStateAt_OI store fuel sched k ds m).ranNd

/-- … and in the final processing round after a second Ctrl-C -/
theorem executed_at_most_once_every_instant_second (cfg : Config) (p : Problem) (store : Store) (fuel : Nat)
    (sched : List Choice) (k : Nat) (ds : List Choice) (m m2 : Nat) :
    (ranOf (secondAt cfg p store fuel sched k ds m m2).rs.trace).Nodup :=
  (secondStateAt_OI store fuel sched k ds m m2).ranNd

/-- what `OI` says about the tasks on record: every submitted, started, loaded or executed task is in
    the work list built by planning, and was submitted -/
theorem OI_on_record {P : TS} {s : IS} (h : OI P s) (t : Tid)
    (ht : (∃ uc, Ev.submit t uc ∈ s.rs.trace) ∨ Ev.start t ∈ s.rs.trace ∨ Ev.load t ∈ s.rs.trace ∨
      (∃ seen, Ev.exec t seen ∈ s.rs.trace)) :
    t ∈ P.pending ∧ ∃ uc, Ev.submit t uc ∈ s.rs.trace := by
  have hs : t ∈ submittedOf s.rs.trace := by
    rcases ht with h1 | h1 | h1 | h1
    · exact (mem_submittedOf _ _).mpr h1
    · exact h.startSub t h1
    · exact h.ranSub t ((mem_ranOf _ _).mpr (Or.inl h1))
    · exact h.ranSub t ((mem_ranOf _ _).mpr (Or.inr h1))
  exact ⟨h.subPlan t hs, (mem_submittedOf _ _).mp hs⟩

/-- NOTHING OUTSIDE THE PLAN, AT EVERY INSTANT of the main loop: every task with a `submit`, `start`,
    `load` or `exec` event is in the work list built by planning (which `plan_is_needed_closure` ties to
    the needed objects), and has a `submit` event -/
theorem nothing_outside_plan_every_instant (cfg : Config) (p : Problem) (store : Store) (fuel : Nat)
    (sched : List Choice) (k : Nat) (t : Tid)
    (ht : (∃ uc, Ev.submit t uc ∈ (mainAt cfg p store fuel sched k).rs.trace) ∨
      Ev.start t ∈ (mainAt cfg p store fuel sched k).rs.trace ∨
      Ev.load t ∈ (mainAt cfg p store fuel sched k).rs.trace ∨
      (∃ seen, Ev.exec t seen ∈ (mainAt cfg p store fuel sched k).rs.trace)) :
    t ∈ (plan cfg p store fuel).pending ∧ ∃ uc, Ev.submit t uc ∈ (mainAt cfg p store fuel sched k).rs.trace :=
  OI_on_record (stateAt_OI store fuel sched k) t ht

theorem nothing_outside_plan_every_instant_handler (cfg : Config) (p : Problem) (store : Store) (fuel : Nat)
    (sched : List Choice) (k : Nat) (ds : List Choice) (m : Nat) (t : Tid)
    (ht : (∃ uc, Ev.submit t uc ∈ (handlerAt cfg p store fuel sched k ds m).rs.trace) ∨
      Ev.start t ∈ (handlerAt cfg p store fuel sched k ds m).rs.trace ∨
      Ev.load t ∈ (handlerAt cfg p store fuel sched k ds m).rs.trace ∨
      (∃ seen, Ev.exec t seen ∈ (handlerAt cfg p store fuel sched k ds m).rs.trace)) :
    t ∈ (plan cfg p store fuel).pending ∧
      ∃ uc, Ev.submit t uc ∈ (handlerAt cfg p store fuel sched k ds m).rs.trace :=
  OI_on_record (handlerStateAt_OI store fuel sched k ds m) t ht

theorem nothing_outside_plan_every_instant_second (cfg : Config) (p : Problem) (store : Store) (fuel : Nat)
    (sched : List Choice) (k : Nat) (ds : List Choice) (m m2 : Nat) (t : Tid)
    (ht : (∃ uc, Ev.submit t uc ∈ (secondAt cfg p store fuel sched k ds m m2).rs.trace) ∨
      Ev.start t ∈ (secondAt cfg p store fuel sched k ds m m2).rs.trace ∨
      Ev.load t ∈ (secondAt cfg p store fuel sched k ds m m2).rs.trace ∨
      (∃ seen, Ev.exec t seen ∈ (secondAt cfg p store fuel sched k ds m m2).rs.trace)) :
    t ∈ (plan cfg p store fuel).pending ∧
      ∃ uc, Ev.submit t uc ∈ (secondAt cfg p store fuel sched k ds m m2).rs.trace :=
  OI_on_record (secondStateAt_OI store fuel sched k ds m m2) t ht

/-- a submitted task has left the work list for good, at every instant of all three streams (so it
    cannot be handed to `get_ready_tasks` again) -/
theorem submitted_left_work_list_every_instant (cfg : Config) (p : Problem) (store : Store) (fuel : Nat)
    (sched : List Choice) (k : Nat) (ds : List Choice) (m m2 : Nat) (t : Tid) :
    (t ∈ submittedOf (mainAt cfg p store fuel sched k).rs.trace →
      t ∉ (mainAt cfg p store fuel sched k).rs.ts.pending) ∧
    (t ∈ submittedOf (handlerAt cfg p store fuel sched k ds m).rs.trace →
      t ∉ (handlerAt cfg p store fuel sched k ds m).rs.ts.pending) ∧
    (t ∈ submittedOf (secondAt cfg p store fuel sched k ds m m2).rs.trace →
      t ∉ (secondAt cfg p store fuel sched k ds m m2).rs.ts.pending) :=
  ⟨(stateAt_OI store fuel sched k).subP t, (handlerStateAt_OI store fuel sched k ds m).subP t,
    (secondStateAt_OI store fuel sched k ds m m2).subP t⟩

/-- all of it for `interruptedRun` itself: the state at the interrupt and the final state, for every
    interrupt instant `k`, drain schedule `ds` and optional second interrupt instant `k2` -/
theorem once_and_planned_interrupted (cfg : Config) (p : Problem) (store : Store) (fuel : Nat)
    (sched ds : List Choice) (k : Nat) (k2 : Option Nat) (s : IS)
    (hs : s = (interruptedRun cfg p store fuel sched k ds k2).final ∨
          s = (interruptedRun cfg p store fuel sched k ds k2).atIntr) :
    (submittedOf s.rs.trace).Nodup ∧ (ranOf s.rs.trace).Nodup ∧
    ∀ t, ((∃ uc, Ev.submit t uc ∈ s.rs.trace) ∨ Ev.start t ∈ s.rs.trace ∨ Ev.load t ∈ s.rs.trace ∨
        (∃ seen, Ev.exec t seen ∈ s.rs.trace)) →
      t ∈ (plan cfg p store fuel).pending ∧ ∃ uc, Ev.submit t uc ∈ s.rs.trace := by
  have hoi : OI (plan cfg p store fuel) s := by
    obtain ⟨⟨k', h1⟩, h2⟩ := interruptedRun_states cfg p store fuel sched ds k k2
    rcases hs with rfl | rfl
    · rcases h2 with ⟨k'', h2⟩ | ⟨m, h2⟩ | ⟨m, m2, h2⟩
      · rw [h2]; exact stateAt_OI store fuel sched k''
      · rw [h2]; exact handlerStateAt_OI store fuel sched k ds m
      · rw [h2]; exact secondStateAt_OI store fuel sched k ds m m2
    · rw [h1]; exact stateAt_OI store fuel sched k'
  exact ⟨hoi.subNd, hoi.ranNd, fun t ht => OI_on_record hoi t ht⟩

/-- explicit form: two different positions of the final trace of an interrupted run never submit the
    same task, and never carry a worker record of the same task -/
theorem no_second_submit_or_execution_interrupted (cfg : Config) (p : Problem) (store : Store) (fuel : Nat)
    (sched ds : List Choice) (k : Nat) (k2 : Option Nat) (a b c : List Ev) (e e' : Ev) (t : Tid)
    (he : (evSubmit e = some t ∧ evSubmit e' = some t) ∨ (evRan e = some t ∧ evRan e' = some t)) :
    (interruptedRun cfg p store fuel sched k ds k2).final.rs.trace ≠ a ++ e :: b ++ e' :: c := by
  intro h
  obtain ⟨h1, h2, _⟩ := once_and_planned_interrupted cfg p store fuel sched ds k k2 _ (Or.inl rfl)
  rw [h] at h1 h2
  rcases he with ⟨he, he'⟩ | ⟨he, he'⟩
  · simp only [submittedOf, List.filterMap_append, List.filterMap_cons, he, he', List.append_assoc] at h1
    rw [List.nodup_append] at h1
    have := h1.2.1
    rw [List.cons_append, List.nodup_cons] at this
    exact this.1 (by simp)
  · simp only [ranOf, List.filterMap_append, List.filterMap_cons, he, he', List.append_assoc] at h2
    rw [List.nodup_append] at h2
    have := h2.2.1
    rw [List.cons_append, List.nodup_cons] at this
    exact this.1 (by simp)

/-! non-vacuity at mid-iteration instants and in interrupted runs (`invExP`: the diamond 3 → {1, 2} → 0,
    `invExCfg`: fork, 2 workers; 61 primitives; 14 … 26 is the submit phase of tasks 1 and 2:
    14 startTask 1, 15 enqueue 1, 16 procStart 1, 17 regRunning 1, 18 unregPending 1, 19 regFuture 1,
    20 startTask 2, 21 enqueue 2, 22 procStart 2, 23 regRunning 2, 24 unregPending 2, 25 regFuture 2) -/
def c03Sched : List Choice := List.replicate 5 chooseAll

/-- k = 24, strictly between two loop heads, inside `_start_processes`: the future of task 2 is in the
    pending map AND in the running map (the extra invariant `OS` of the main stream's block boundaries
    is false here, `OI` holds); three tasks submitted, one executed -/
example : (mainOf invExCfg invExP [] 4 c03Sched).length = 61 ∧
    (mainAt invExCfg invExP [] 4 c03Sched 24).rs.queued.map Job.tid = [2] ∧
    (mainAt invExCfg invExP [] 4 c03Sched 24).rs.running.map Job.tid = [1, 2] ∧
    submittedOf (mainAt invExCfg invExP [] 4 c03Sched 24).rs.trace = [0, 1, 2] ∧
    ranOf (mainAt invExCfg invExP [] 4 c03Sched 24).rs.trace = [0] := by decide

/-- a single interrupt in that window: the handler cancels the pending entry of 2 and drains; tasks 1
    and 2 are executed AFTER the interrupt, each once (task 2 although it was tracked twice); task 3 is
    planned but never submitted -/
example :
    (interruptedRun invExCfg invExP [] 4 c03Sched 24 c03Sched none).outcome = .interrupted ∧
    ranOf (interruptedRun invExCfg invExP [] 4 c03Sched 24 c03Sched none).atIntr.rs.trace = [0] ∧
    ranOf (interruptedRun invExCfg invExP [] 4 c03Sched 24 c03Sched none).final.rs.trace = [0, 1, 2] ∧
    submittedOf (interruptedRun invExCfg invExP [] 4 c03Sched 24 c03Sched none).final.rs.trace = [0, 1, 2] ∧
    (plan invExCfg invExP [] 4).pending = [3, 1, 2, 0] := by decide

/-- a double interrupt (second one after the first handler's first primitive): `stop()` terminates the
    workers of 1 and 2, the last processing round starts and executes nothing -/
example :
    (interruptedRun invExCfg invExP [] 4 c03Sched 24 c03Sched (some 1)).outcome = .interrupted ∧
    (interruptedRun invExCfg invExP [] 4 c03Sched 24 c03Sched (some 1)).final.terminated = [1, 2] ∧
    ranOf (interruptedRun invExCfg invExP [] 4 c03Sched 24 c03Sched (some 1)).final.rs.trace = [0] ∧
    submittedOf (interruptedRun invExCfg invExP [] 4 c03Sched 24 c03Sched (some 1)).final.rs.trace = [0, 1, 2] := by
  decide

/-- the theorem applied to the single-interrupt run: task 2, executed during the drain, is planned -/
example : 2 ∈ (plan invExCfg invExP [] 4).pending :=
  ((once_and_planned_interrupted invExCfg invExP [] 4 c03Sched c03Sched 24 none _ (Or.inl rfl)).2.2 2
    (Or.inr (Or.inr (Or.inr ⟨[some 0], by decide⟩)))).1

end Lt.Props.C03
