import LabtechModel.Proofs.SaveExec
/-!
# C13 — Killing a task mid-save cannot poison the cache

**The property is false of the code's design** (no commit marker, no atomic rename: `is_cached` is
"the key directory exists", and the directory is created before anything is written). It is a
recorded known finding with two windows (F13a, F13b in `known_findings.json`). What is proved here is
the *exact characterisation* of the crash points that are safe, over the micro-step model of
`BaseCache.save` (`Model/Save.lean`), for every number of write calls `n+1`, `m+1`, every crash
point `k` (number of micro-steps executed before the kill) and both fates of the unflushed buffer:

* first save: safe **iff** the key directory was not yet created (`k ≤ 2`) or the result file is
  complete (`completeAt`: all writes performed and durable, or the file closed);
* overwrite of a good entry: safe **iff** `metadata.json` was not yet truncated (`k ≤ 3`) or the
  result file is complete; "safe" = not cached, or loads value and meta of the *same* save
  (old/old or new/new).

Full statement of C13 (NOT provable, refuted by `crash_poison_witness`):
  `∀ n m old new overwrite k durable, safeB (goodOf overwrite old new) (crash n m new (preOf overwrite old) k durable)`.
`crash_safe_partial` is that statement restricted by the hypothesis
`k ≤ untouchedUpTo overwrite ∨ completeAt n m durable ≤ k`.
-/
namespace Lt.Props.C13
open Lt.Save

/-- first save: exact set of safe crash points -/
theorem crash_safe_iff_first (n m : Nat) (new : Ver) (k : Nat) (durable : Bool) :
    safeB [new] (crash n m new .absent k durable) = true ↔ (k ≤ 2 ∨ completeAt n m durable ≤ k) := by
  rw [crash_cases]
  simp only [completeAt, mkdirE, setMeta, setData]
  cases durable <;> (repeat' split) <;> simp_all [safeB, isCached, load] <;> omega

/-- overwrite of a good entry of an earlier save: exact set of safe crash points -/
theorem crash_safe_iff_overwrite (n m : Nat) (old new : Ver) (hne : old ≠ new) (k : Nat) (durable : Bool) :
    safeB [old, new] (crash n m new (.dir (.full old) (.full old)) k durable) = true
      ↔ (k ≤ 3 ∨ completeAt n m durable ≤ k) := by
  have hne' : ¬ new = old := fun h => hne h.symm
  rw [crash_cases]
  simp only [completeAt, mkdirE, setMeta, setData]
  cases durable <;> (repeat' split) <;> simp_all [safeB, isCached, load] <;> omega

/-- **exact characterisation** of the safe crash points, both modes -/
theorem crash_safe_iff (n m : Nat) (old new : Ver) (hne : old ≠ new) (overwrite : Bool) (k : Nat) (durable : Bool) :
    safeB (goodOf overwrite old new) (crash n m new (preOf overwrite old) k durable) = true
      ↔ (k ≤ untouchedUpTo overwrite ∨ completeAt n m durable ≤ k) := by
  cases overwrite
  · simpa [goodOf, preOf, untouchedUpTo] using crash_safe_iff_first n m new k durable
  · simpa [goodOf, preOf, untouchedUpTo] using crash_safe_iff_overwrite n m old new hne k durable

/-- C13 restricted to the safe points (hypothesis spelled out: the crash strikes before the entry is
    touched, or after the result file is complete) -/
theorem crash_safe_partial (n m : Nat) (old new : Ver) (hne : old ≠ new) (overwrite : Bool) (k : Nat) (durable : Bool)
    (h : k ≤ untouchedUpTo overwrite ∨ completeAt n m durable ≤ k) :
    safeB (goodOf overwrite old new) (crash n m new (preOf overwrite old) k durable) = true :=
  (crash_safe_iff n m old new hne overwrite k durable).mpr h

/-- the two known windows are poisoned at *every* point inside them -/
theorem crash_window_poisoned (n m : Nat) (old new : Ver) (hne : old ≠ new) (overwrite : Bool) (k : Nat) (durable : Bool)
    (h1 : untouchedUpTo overwrite < k) (h2 : k < completeAt n m durable) :
    safeB (goodOf overwrite old new) (crash n m new (preOf overwrite old) k durable) = false := by
  have := crash_safe_iff n m old new hne overwrite k durable
  cases hs : safeB (goodOf overwrite old new) (crash n m new (preOf overwrite old) k durable)
  · rfl
  · rw [hs] at this; have := this.mp rfl; omega

/-- a first save never mis-loads: at every crash point a load fails or returns the saved value with
    its own meta (the poison of window F13a is always "cached but unloadable", never a wrong value) -/
theorem crash_first_save_never_wrong_value (n m : Nat) (new : Ver) (k : Nat) (durable : Bool) :
    load (crash n m new .absent k durable) = .fails ∨ load (crash n m new .absent k durable) = .ok new new := by
  rw [crash_cases]
  simp only [mkdirE, setMeta, setData]
  (repeat' split) <;> simp [load]

/-- an overwrite never returns a foreign value: whatever loads after a crash is the value of the old
    or of the new save, with the meta of the old or of the new save (the mis-load of window F13b is
    exactly "old value under new meta") -/
theorem crash_overwrite_loads_old_or_new (n m : Nat) (old new : Ver) (k : Nat) (durable : Bool) (v mv : Ver)
    (h : load (crash n m new (.dir (.full old) (.full old)) k durable) = .ok v mv) :
    (v = old ∨ v = new) ∧ (mv = old ∨ mv = new) := by
  rw [crash_cases] at h
  simp only [mkdirE, setMeta, setData] at h
  (repeat' split at h) <;> simp [load] at h <;> (obtain ⟨h1, h2⟩ := h; subst h1; subst h2; simp)

/-- **C13 is false**: a concrete poisoned state. First save, one write per file, killed right after
    the data file was opened (9 micro-steps done): reported cached, does not load. -/
theorem crash_poison_witness :
    isCached (crash 0 0 1 .absent 9 true) = true ∧ load (crash 0 0 1 .absent 9 true) = .fails ∧
    safeB [1] (crash 0 0 1 .absent 9 true) = false := by decide

/-- second window (F13b): overwrite, killed after the new `metadata.json` was closed and before the
    result file was truncated: the OLD value is loaded under the NEW meta -/
theorem crash_poison_witness_overwrite :
    load (crash 0 0 1 (preOf true 0) 7 true) = .ok 0 1 ∧
    safeB (goodOf true 0 1) (crash 0 0 1 (preOf true 0) 7 true) = false := by decide

/-! ## non-vacuity -/
/-- safe points exist on both sides of the window, in both modes, with lost and kept buffers -/
example : safeB (goodOf false 0 1) (crash 2 3 1 (preOf false 0) 2 false) = true ∧
    safeB (goodOf false 0 1) (crash 2 3 1 (preOf false 0) 15 true) = true ∧
    safeB (goodOf false 0 1) (crash 2 3 1 (preOf false 0) 15 false) = false ∧
    safeB (goodOf true 0 1) (crash 2 3 1 (preOf true 0) 3 true) = true ∧
    safeB (goodOf true 0 1) (crash 2 3 1 (preOf true 0) 4 true) = false ∧
    safeB (goodOf true 0 1) (crash 2 3 1 (preOf true 0) 16 false) = true := by decide

example : (0 : Ver) ≠ 1 ∧ (2 ≤ untouchedUpTo false ∨ completeAt 2 3 true ≤ 2) ∧
    untouchedUpTo true < 5 ∧ 5 < completeAt 2 3 false := by decide

end Lt.Props.C13
