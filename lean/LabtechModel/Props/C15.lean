import LabtechModel.Proofs.ParamsCache
/-!
# C15 — Tasks are immutable values with consistent equality, hashing and copying

Model: `normalize` (`immutable_param_value`), `construct` (`_task_post_init`), `findTasksRaw` /
`findTasks` / `directDeps` (`find_tasks_in_param`, `get_direct_dependencies`), `getstate` / `setstate`
(`_task__getstate__`, `_task__setstate__` as they are now).

A normalised value has type `Value`, which has no constructor for a list, a mutable dict, an
unsupported object or a non-string key; `embed : Value → Raw` places it back among the raw values so
that "normal" is a checkable predicate (`Raw.normal`) and not only a typing fact.  The serialiser
`serValue : Value → Json` is a total function on that type, i.e. it accepts every normal form.
Frozen-ness, Python's `==`/`hash` agreement and the pickle protocols are facts about CPython objects;
they are checked on the real objects by `harness/props/c15.py`.
-/
namespace Lt.Params.C15
open Lt.Params

/-- the result of normalisation is the input with every list respelled as a tuple and every dict as a
frozendict — nothing dropped, reordered or otherwise changed — and contains no list, no mutable dict,
no unsupported value and no non-string key at any depth -/
theorem normalize_normal (r : Raw) (v : Value) (h : normalize r = .ok v) :
    embed v = freeze r ∧ (embed v).normal = true :=
  ⟨normalize_spec r v h, embed_normal v⟩

/-- construction rejects exactly the values that have an unsupported value or a non-string dict key at
a visited position (any depth; the inside of already constructed nested tasks is not visited again) … -/
theorem normalize_rejects_iff (r : Raw) : (∃ e, normalize r = .error e) ↔ r.bad = true := by
  constructor
  · rintro ⟨e, h⟩; exact normalize_err_bad r e h
  · intro h; exact ⟨_, normalize_bad r h⟩

/-- … and always with `TaskError` -/
theorem normalize_error_class (r : Raw) (e : Err) (h : normalize r = .error e) : e = .taskError := by
  have := normalize_bad r (normalize_err_bad r e h)
  rw [h] at this
  exact Except.error.inj this

/-- normalising what normalisation produced changes nothing -/
theorem normalize_idem (r : Raw) (v : Value) (_h : normalize r = .ok v) : normalize (embed v) = .ok v :=
  normalize_embed v

/-- the dependency search accepts whatever normalisation accepts — before and after normalisation —
and finds the same tasks in the same order -/
theorem findTasks_normalize (r : Raw) (v : Value) (h : normalize r = .ok v) :
    findTasksRaw r = .ok (findTasks v) ∧ findTasksRaw (embed v) = .ok (findTasks v) :=
  ⟨findTasksRaw_of_normalize r v h, findTasksRaw_embed v⟩

theorem foldl_addO_sublist (l : List Task) : ∀ (acc : List Task), ∃ r, l.foldl addO acc = acc ++ r ∧ r.Sublist l := by
  induction l with
  | nil => intro acc; exact ⟨[], by simp⟩
  | cons t ts ih =>
    intro acc
    simp only [List.foldl_cons]
    by_cases h : acc.any (fun u => Task.beq u t) = true
    · obtain ⟨r, hr, hs⟩ := ih acc
      refine ⟨r, ?_, hs.cons t⟩
      simp [addO, h, hr]
    · obtain ⟨r, hr, hs⟩ := ih (acc ++ [t])
      refine ⟨t :: r, ?_, hs.cons_cons t⟩
      simp [addO, h, hr]

/-- `get_direct_dependencies`: every task found in the fields, each equality class once, in discovery order -/
theorem directDeps_spec (t : Task) :
    (∀ u, u ∈ directDeps t ↔ u ∈ findFields t.fields) ∧ (directDeps t).Nodup ∧ (directDeps t).Sublist (findFields t.fields) := by
  refine ⟨directDeps_mem t, directDeps_nodup t, ?_⟩
  obtain ⟨r, hr, hs⟩ := foldl_addO_sublist (findFields t.fields) []
  simp only [List.nil_append] at hr
  rw [directDeps, hr]
  exact hs

theorem normFields_ok_iff : ∀ (fs : List (String × Raw)), (∃ vs, normFields fs = .ok vs) ↔ ∀ kv ∈ fs, kv.2.bad = false
  | [] => by simp [normFields]
  | (k, r) :: rest => by
    have ih := normFields_ok_iff rest
    simp only [normFields, List.mem_cons, forall_eq_or_imp]
    cases hr : normalize r with
    | error e =>
      have := normalize_err_bad r e hr
      simp [this]
    | ok v =>
      have hb : r.bad = false := by
        cases hb : r.bad with
        | true => rw [normalize_bad r hb] at hr; cases hr
        | false => rfl
      simp only [hb, true_and, ← ih]
      cases hn : normFields rest with
      | error e => simp
      | ok vs => simp

/-- a constructor call succeeds iff no argument has a bad position; otherwise it raises `TaskError` -/
theorem construct_accepts_iff {D : Type} (env : Env D) (cls : ClassRef) (fs : List (String × Raw)) :
    ((∃ o, construct env cls fs = .ok o) ↔ ∀ kv ∈ fs, kv.2.bad = false)
    ∧ (∀ e, construct env cls fs = .error e → e = .taskError) := by
  constructor
  · rw [← normFields_ok_iff]
    simp only [construct]
    cases normFields fs with
    | error e => simp
    | ok vs => simp
  · intro e h
    simp only [construct] at h
    cases hn : normFields fs with
    | ok vs => simp [hn] at h
    | error e' =>
      simp only [hn, Except.error.injEq] at h
      subst h
      induction fs generalizing e' with
      | nil => simp [normFields] at hn
      | cons kv rest ih =>
        obtain ⟨k, r⟩ := kv
        simp only [normFields] at hn
        cases hr : normalize r with
        | error e'' =>
          simp only [hr, Except.error.injEq] at hn
          subst hn
          exact normalize_error_class r _ hr
        | ok v =>
          rw [hr] at hn
          cases hrest : normFields rest with
          | ok vs => simp [hrest] at hn
          | error e'' =>
            simp only [hrest, Except.error.injEq] at hn
            subst hn
            exact ih _ hrest

/-- a freshly constructed task holds the normal forms, the key of its type's cache, and no results map,
context or result meta; and what `post_init` derives -/
theorem construct_fields {D : Type} (env : Env D) (cls : ClassRef) (fs : List (String × Raw)) (o : TaskObj D)
    (h : construct env cls fs = .ok o) :
    o.value.cls = cls ∧ normFields fs = .ok o.value.fields ∧ o.cacheKey = cacheKey env.sha1 (env.cacheOf cls) o.value
    ∧ o.resultsMap = none ∧ o.context = none ∧ o.resultMeta = none ∧ o.derived = env.postInit o.value := by
  simp only [construct] at h
  cases hn : normFields fs with
  | error e => simp [hn] at h
  | ok vs =>
    simp only [hn, Except.ok.injEq] at h
    subst h
    simp [mkObj, Task.cls, Task.fields]

/-- tasks of different types are different values, whatever their parameters -/
theorem ne_of_type (c₁ c₂ : ClassRef) (f₁ f₂ : List (String × Value)) (h : c₁ ≠ c₂) : Task.mk c₁ f₁ ≠ Task.mk c₂ f₂ := by
  intro e
  injection e with e _
  exact h e

/-- equality of task values is decided by the typed structural comparison (same type, equal
parameters at every depth) -/
theorem eq_iff_beq (t u : Task) : t = u ↔ Task.beq t u = true :=
  (Task.beq_iff t u).symm

/-- **Pickling.** The copy has the same value (hence is equal and finds the same dependencies), the same
cache key, no results map, no context, no result meta, and carries again what `post_init` derives. -/
theorem pickle_eq {D : Type} (env : Env D) (o : TaskObj D) :
    ∃ o', pickleRoundTrip env o = .ok o' ∧ o'.value = o.value ∧ o'.cacheKey = o.cacheKey
      ∧ directDeps o'.value = directDeps o.value ∧ o'.resultsMap = none ∧ o'.context = none
      ∧ o'.resultMeta = none ∧ o'.derived = env.postInit o.value :=
  ⟨_, pickleRoundTrip_eq env o, rfl, rfl, rfl, rfl, rfl, rfl, rfl⟩

/-- for an object that came out of the constructor, the copy differs from it in nothing but the
result meta / context / results map it may have been given since -/
theorem pickle_of_constructed {D : Type} (env : Env D) (t : Task) :
    pickleRoundTrip env (mkObj env t) = .ok (mkObj env t) := by
  rw [pickleRoundTrip_eq]; rfl

/-! ### non-vacuity -/
def leaf : Task := .mk ⟨"ptasks", "Leaf"⟩ [("x", .scalar (.int 1))]
/-- `[Leaf(1), {"k": [1.0, Leaf(1)]}, (None,)]` -/
def rawOk : Raw := .list [.task leaf, .dict [(.str "k", .list [.scalar (.float "1.0"), .task leaf])], .tuple [.scalar .none]]
/-- `[1, {"k": {2: set()}}]` -/
def rawBadKey : Raw := .list [.scalar (.int 1), .dict [(.str "k", .fdict [(.other, .scalar (.int 2))])]]
def rawBadVal : Raw := .tuple [.tuple [.unsupported]]

example : rawOk.bad = false ∧ rawBadKey.bad = true ∧ rawBadVal.bad = true := by decide
example : normalize rawOk = .ok (.tuple [.task leaf, .dict [("k", .tuple [.scalar (.float "1.0"), .task leaf])], .tuple [.scalar .none]]) := by
  simp [rawOk, normalize, normList, normItems]
example : normalize rawBadKey = .error .taskError := normalize_bad _ (by decide)
example : directDeps (.mk ⟨"ptasks", "Box"⟩ [("a", .tuple [.task leaf, .task leaf]), ("b", .task leaf)]) = [leaf] := by
  simp [directDeps, Task.fields, findFields, findTasks, findList, addO, Task.beq_refl]

end Lt.Params.C15
