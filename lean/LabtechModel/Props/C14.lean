import LabtechModel.Proofs.IntrDrain
/-!
# C14 — one Ctrl-C drains the run gracefully; a second one stops it at once

Model: `Model/Intr.lean` (M10). `Proofs/IntrRefine.lean` proves that M10 executed without an
interrupt IS the validated coarse model (`prims_refine_iteration`, `run_refine`). An interrupt
instant is an index `k` into the main loop's primitive stream (`∀ k` = "every interrupt instant"),
a second interrupt an index `k2 = some m` into the first handler's stream (`m = 0`: before the
first `cancel` step; the handler logs inside its inner `try`, so every `m` leads to the second
handler). `m ≥` the handler's length = the second interrupt arrived after the handler was done:
same as no second interrupt.

`interrupt_before_loop` / `interrupt_in_finally`: an interrupt during planning (before the guarded
region) or inside `finally` changes no modelled state and propagates; nothing to prove in M10.
-/
namespace Lt

variable (cfg : Config) (p : Problem) (store : Store) (fuel : Nat) (sched ds : List Choice)

/-- A single interrupt at ANY instant `k` before the run completed: `run_tasks` leaves by
    `raise KeyboardInterrupt` (`interrupted`), or is still draining when the given drain schedule
    ends (`waiting`: the handler is still inside `while runner.pending_task_count() > 0`; that a
    fair, long enough drain schedule excludes it is NOT proved here — C11's liveness argument at
    loop heads applies to the drain rounds but has not been transferred to M10). It never returns normally and
    the handler's bookkeeping never hits `KeyError`. The only other exit: a task FAILS during the
    drain and `continue_on_failure` is off — then the handler raises `LabError`. -/
theorem single_interrupt_raises_interrupt (k : Nat) (hk : k < (mainOf cfg p store fuel sched).length) :
    (interruptedRun cfg p store fuel sched k ds none).outcome = .interrupted ∨
    (interruptedRun cfg p store fuel sched k ds none).outcome = .waiting ∨
      (cfg.contOnFail = false ∧
        ∃ t, (interruptedRun cfg p store fuel sched k ds none).outcome = .raised (.labError t)) := by
  have hk' : k < (mainStream cfg p (reqTids p) sched (initIS cfg p store fuel)).length := hk
  simp only [interruptedRun, hk', if_true]
  have hq := handler_Q (cfg := cfg) (p := p) (reqTids p) ds _ (stateAt_Q (cfg := cfg) (p := p) store fuel sched k)
    (handlerPrims cfg p (reqTids p) ds (stateAt cfg p store fuel sched k)).length
  have hl := handler_LabOK (cfg := cfg) (p := p) (reqTids p) ds _ (stateAt_LabOK (cfg := cfg) (p := p) store fuel sched k)
    (handlerPrims cfg p (reqTids p) ds (stateAt cfg p store fuel sched k)).length
  rw [take_all] at hq hl
  exact handlerOutcome_cases _ _ hq.1 hl

theorem single_interrupt_never_returns_nor_keyerror (k : Nat)
    (hk : k < (mainOf cfg p store fuel sched).length) :
    (interruptedRun cfg p store fuel sched k ds none).outcome ≠ .returned ∧
    (interruptedRun cfg p store fuel sched k ds none).outcome ≠ .raised .keyError := by
  rcases single_interrupt_raises_interrupt cfg p store fuel sched ds k hk with h | h | ⟨_, t, h⟩ <;>
    rw [h] <;> simp

/-- A second interrupt at ANY instant `m` of the first handler: `KeyboardInterrupt` again — never a
    normal return, never `KeyError`, and no waiting (the outcome is not `waiting` whatever the drain
    schedule); only a task failure seen by the single last processing round, with
    `continue_on_failure` off, turns into `LabError`. -/
theorem double_interrupt_raises_interrupt (k m : Nat) (hk : k < (mainOf cfg p store fuel sched).length)
    (hm : m < (handlerPrims cfg p (reqTids p) ds (stateAt cfg p store fuel sched k)).length) :
    (interruptedRun cfg p store fuel sched k ds (some m)).outcome = .interrupted ∨
      (cfg.contOnFail = false ∧
        ∃ t, (interruptedRun cfg p store fuel sched k ds (some m)).outcome = .raised (.labError t)) := by
  rw [interruptedRun_double store fuel sched ds k m hk hm]
  have hq := handler_Q (cfg := cfg) (p := p) (reqTids p) ds _
    (stateAt_Q (cfg := cfg) (p := p) store fuel sched k) m
  have hl := handler_LabOK (cfg := cfg) (p := p) (reqTids p) ds _
    (stateAt_LabOK (cfg := cfg) (p := p) store fuel sched k) m
  exact handlerOutcome_true_cases _ (second_Q (reqTids p) _ hq).1 (second_LabOK (reqTids p) _ hl)

/-- No task is submitted and no worker is started after the (first) interrupt — with or without a
    second interrupt, at any instants: the trace only grows, and what it gains contains no
    `Ev.start` and no `Ev.submit`. (The serial runner's `run()` in the caller counts as a start.) -/
theorem no_start_after_interrupt (k : Nat) (k2 : Option Nat)
    (hk : k < (mainOf cfg p store fuel sched).length) :
    ∃ l, (interruptedRun cfg p store fuel sched k ds k2).final.rs.trace =
        (interruptedRun cfg p store fuel sched k ds k2).atIntr.rs.trace ++ l ∧
      ∀ e ∈ l, (∀ t, e ≠ Ev.start t) ∧ (∀ t uc, e ≠ Ev.submit t uc) := by
  have single : ∃ l, (interruptedRun cfg p store fuel sched k ds none).final.rs.trace =
        (interruptedRun cfg p store fuel sched k ds none).atIntr.rs.trace ++ l ∧
      ∀ e ∈ l, (∀ t, e ≠ Ev.start t) ∧ (∀ t uc, e ≠ Ev.submit t uc) := by
    rw [interruptedRun_single store fuel sched ds k hk]
    obtain ⟨l, h1, h2⟩ := handler_trace (cfg := cfg) (p := p) (reqTids p) ds
      (stateAt cfg p store fuel sched k)
      (handlerPrims cfg p (reqTids p) ds (stateAt cfg p store fuel sched k)).length
    rw [take_all] at h1
    exact ⟨l, h1, fun e he => evLaunch_false e (h2 e he)⟩
  cases k2 with
  | none => exact single
  | some m =>
    by_cases hm : m < (handlerPrims cfg p (reqTids p) ds (stateAt cfg p store fuel sched k)).length
    · rw [interruptedRun_double store fuel sched ds k m hk hm]
      obtain ⟨l1, h1, h1'⟩ := handler_trace (cfg := cfg) (p := p) (reqTids p) ds
        (stateAt cfg p store fuel sched k) m
      obtain ⟨l2, h2, h2'⟩ := second_trace (cfg := cfg) (p := p) (reqTids p)
        (runPrims cfg p ((handlerPrims cfg p (reqTids p) ds (stateAt cfg p store fuel sched k)).take m)
          (stateAt cfg p store fuel sched k))
      refine ⟨l1 ++ l2, ?_, ?_⟩
      · simp only; rw [h2, h1, List.append_assoc]
      · intro e he
        rcases List.mem_append.mp he with he | he
        · exact evLaunch_false e (h1' e he)
        · exact evLaunch_false e (h2' e he)
    · rw [interruptedRun_late store fuel sched ds k m hk hm]; exact single

/-- The cache is left consistent: whatever the interrupt instants (any `k`, any `k2`, also an
    uninterrupted run), every store entry at exit either was there before the run or is the value
    that a recorded execution of that very task's `run()` computed (and the task type is
    cacheable): no foreign and no invented entries. (Torn files are the subject of C13.) -/
theorem store_consistent (k : Nat) (k2 : Option Nat) (t : Tid) (v : Val)
    (h : (t, v) ∈ (interruptedRun cfg p store fuel sched k ds k2).final.rs.store) :
    (t, v) ∈ store ∨
    (p.cacheable (p.ty t) = true ∧
      ∃ seen, Ev.exec t seen ∈ (interruptedRun cfg p store fuel sched k ds k2).final.rs.trace ∧
        p.behave t seen = some v) := by
  have key : SI p store (interruptedRun cfg p store fuel sched k ds k2).final := by
    have h0 := SI_init (cfg := cfg) (p := p) store fuel
    unfold interruptedRun
    simp only
    split
    · split
      · split
        · exact runPrims_SI _ _ _ (runPrims_SI _ _ _ (runPrims_SI _ _ _ h0))
        · exact runPrims_SI _ _ _ (runPrims_SI _ _ _ h0)
      · exact runPrims_SI _ _ _ (runPrims_SI _ _ _ h0)
    · exact runPrims_SI _ _ _ h0
  exact key.1 t v h

/-!
## Workers that were executing at the interrupt

FULL STATEMENT (false — finding F14a, `untracked_worker_after_interrupt_between_start_and_tracking`):
  `drain_waits_for_running`: for every `k < length`, with no second interrupt, if the handler leaves
  by `KeyboardInterrupt` then no worker process is alive at exit.
It fails for `k` in the submit path between `process.start()` and `future_to_task[future] = task`
(`procStart j` … `regFuture t`): the worker exists, but is not (yet) in the running map, or is in it
without being in `future_to_task`, so `while pending_task_count() > 0` does not wait for it.
Witnesses: `finding_untracked_worker_*` below. What IS proved: from every interrupt instant at
which every live worker is tracked (`Tr`: in the running map, its future in `future_to_task`,
uncancelled, unfinished — true inside the wait/processing phase), the drain loop's exit implies
that nobody is alive, and everyone who was alive ran to completion (its record is in the trace;
the model applies a worker's save in the same atomic step that consumes its report) or died by
itself. (`terminated` is only ever extended by `stopOne`, which the first handler does not emit.)
-/

/-- `drain_waits_for_running`, proved part: hypothesis `Tr` at the interrupt instant. -/
theorem drain_waits_for_running_partial (k : Nat) (hk : k < (mainOf cfg p store fuel sched).length)
    (htr : Tr cfg (stateAt cfg p store fuel sched k))
    (hout : (interruptedRun cfg p store fuel sched k ds none).outcome = .interrupted) :
    (interruptedRun cfg p store fuel sched k ds none).final.alive = [] ∧
    ∀ t ∈ (stateAt cfg p store fuel sched k).alive,
      t ∈ (interruptedRun cfg p store fuel sched k ds none).final.terminated ∨ p.dies t = true ∨
      t ∈ ranOf (interruptedRun cfg p store fuel sched k ds none).final.rs.trace := by
  rw [interruptedRun_single store fuel sched ds k hk] at hout ⊢
  simp only at hout ⊢
  have hT := (always_Tr_handler (cfg := cfg) (p := p) (reqTids p) ds _ htr).last
  obtain ⟨hd, _⟩ := handlerOutcome_interrupted _ _ hout
  have hf : (runPrims cfg p (handlerPrims cfg p (reqTids p) ds (stateAt cfg p store fuel sched k))
      (stateAt cfg p store fuel sched k)).rs.futs = [] := by
    simpa [List.isEmpty_iff] using hd
  have hal := hT.no_alive_of_drained hf
  refine ⟨hal, ?_⟩
  intro t ht
  have hacc := runPrims_Acc (cfg := cfg) (p := p) (stateAt cfg p store fuel sched k).alive
    (handlerPrims cfg p (reqTids p) ds (stateAt cfg p store fuel sched k)) _ (fun t ht => Or.inl ht)
  rcases hacc t ht with h | h
  · rw [hal] at h; simp at h
  · exact h

/-- `double_interrupt_stops`, proved part (same hypothesis `Tr` at the first interrupt; the FULL
    STATEMENT without it is false for the same windows, witness `finding_untracked_worker_double`):
    a second interrupt at any instant `m` of the first handler that ends in `KeyboardInterrupt`
    leaves nobody alive — every worker alive at the first interrupt was terminated by `stop()`,
    or had reported / died before. By construction (`secondPrims`,
    `double_interrupt_one_last_round`) nothing but `cancel`, `stop` and ONE processing round
    follows the second interrupt, and `double_interrupt_raises_interrupt` shows the outcome is
    never `waiting`. -/
theorem double_interrupt_stops_partial (k m : Nat) (hk : k < (mainOf cfg p store fuel sched).length)
    (hm : m < (handlerPrims cfg p (reqTids p) ds (stateAt cfg p store fuel sched k)).length)
    (htr : Tr cfg (stateAt cfg p store fuel sched k))
    (hout : (interruptedRun cfg p store fuel sched k ds (some m)).outcome = .interrupted) :
    (interruptedRun cfg p store fuel sched k ds (some m)).final.alive = [] ∧
    ∀ t ∈ (stateAt cfg p store fuel sched k).alive,
      t ∈ (interruptedRun cfg p store fuel sched k ds (some m)).final.terminated ∨ p.dies t = true ∨
      t ∈ ranOf (interruptedRun cfg p store fuel sched k ds (some m)).final.rs.trace := by
  rw [interruptedRun_double store fuel sched ds k m hk hm] at hout ⊢
  simp only at hout ⊢
  have hT1 := (always_Tr_handler (cfg := cfg) (p := p) (reqTids p) ds _ htr).prefix m
  obtain ⟨_, hnr⟩ := handlerOutcome_interrupted _ _ hout
  -- the state at the second interrupt is running: otherwise the second handler changes nothing
  have hnoret : NoRet (runPrims cfg p
      ((handlerPrims cfg p (reqTids p) ds (stateAt cfg p store fuel sched k)).take m)
      (stateAt cfg p store fuel sched k)) := by
    apply runPrims_NoRet
    apply runPrims_NoRet
    intro r hr; simp [initIS, initRS] at hr
  have hrun1 : (runPrims cfg p ((handlerPrims cfg p (reqTids p) ds (stateAt cfg p store fuel sched k)).take m)
      (stateAt cfg p store fuel sched k)).rs.status = .running := by
    cases hs : (runPrims cfg p ((handlerPrims cfg p (reqTids p) ds (stateAt cfg p store fuel sched k)).take m)
      (stateAt cfg p store fuel sched k)).rs.status with
    | running => rfl
    | returned r => exact absurd hs (hnoret r)
    | raised e =>
      exfalso
      apply hnr e
      rw [runPrims_stopped _ _ (by rw [hs]; simp)]
      exact hs
  have hal := second_no_alive (cfg := cfg) (p := p) (reqTids p) _ hT1 hrun1
  refine ⟨hal, ?_⟩
  intro t ht
  have hacc := runPrims_Acc (cfg := cfg) (p := p) (stateAt cfg p store fuel sched k).alive
    (secondPrims cfg p (reqTids p) (runPrims cfg p
      ((handlerPrims cfg p (reqTids p) ds (stateAt cfg p store fuel sched k)).take m)
      (stateAt cfg p store fuel sched k))) _
    (runPrims_Acc (cfg := cfg) (p := p) (stateAt cfg p store fuel sched k).alive
      ((handlerPrims cfg p (reqTids p) ds (stateAt cfg p store fuel sched k)).take m)
      (stateAt cfg p store fuel sched k) (fun t ht => Or.inl ht))
  rcases hacc t ht with h | h
  · rw [hal] at h; simp at h
  · exact h

/-- after the second interrupt: `cancel()`, `stop()`, one `process_completed_tasks()`, nothing else -/
theorem double_interrupt_one_last_round (s : IS) :
    ∃ c0 st, secondPrims cfg p (reqTids p) s = c0 ++ st ++ waitPrims cfg p (reqTids p) noWait
        (runPrims cfg p st (runPrims cfg p c0 s)) ∧
      c0 = cancelPrims cfg s ∧ st = stopPrims cfg (runPrims cfg p c0 s) :=
  ⟨_, _, rfl, rfl, rfl⟩

/-! ## non-vacuity and the finding's witnesses: two independent tasks and one that needs both -/
def c14P : Problem where
  tidOf := fun i => i
  children := fun i => if i = 2 then [0, 1] else []
  requested := [2]
  ty := fun _ => 0
  maxPar := fun _ => none
  cacheable := fun _ => true
  fails := fun _ => false
  dies := fun _ => false
  behave := fun t vs => some (1000 * t + (vs.map (fun o => o.getD 7)).foldl (· + ·) 0)

def c14Cfg : Config := { backend := .fork, maxWorkers := 2, contOnFail := true, bust := false }
def c14All : Choice := ⟨fun _ => true⟩
def c14First : Choice := ⟨fun i => i == 0⟩
def c14Sched : List Choice := [c14All, c14All, c14All, c14All]

/- the main stream (43 primitives): 0 startTask 0, 1 enqueue 0, 2 procStart 0, 3 regRunning 0,
   4 unregPending 0, 5 regFuture 0, 6..11 the same for task 1, 12 consumeResults, 13 popFuture 0,
   14 storeResult 0, 15 markInstances 0, 16 removeActive 0, 17 unblockOne 0 2, 18 removeDone, … -/
example : (mainOf c14Cfg c14P [] 4 c14Sched).length = 43 := by decide

/-- an interrupt between `process.start()` and the registration in the running map (the window in
    which the drain used to hang, D14): the drain terminates with `KeyboardInterrupt` … -/
example : (interruptedRun c14Cfg c14P [] 4 c14Sched 9 [c14All, c14All, c14All] none).outcome = .interrupted := by
  decide

/-- … but FINDING F14a (a): that worker (task 1) is alive at exit, nobody waited for it -/
theorem finding_untracked_worker_start_window :
    (interruptedRun c14Cfg c14P [] 4 c14Sched 9 [c14All, c14All, c14All] none).final.alive = [1] := by decide

/-- FINDING F14a (c): interrupt after the worker is in the running map but before
    `future_to_task[future] = task` (k = 11): `KeyboardInterrupt`, worker 1 still alive -/
theorem finding_untracked_worker_submit_window :
    (interruptedRun c14Cfg c14P [] 4 c14Sched 11 [c14First, c14First, c14First] none).outcome = .interrupted ∧
    (interruptedRun c14Cfg c14P [] 4 c14Sched 11 [c14First, c14First, c14First] none).final.alive = [1] := by
  decide

/-- FINDING F14a, double interrupt: the worker of the start window is not in the running map, so
    `stop()` does not terminate it (task 0's worker is terminated, task 1's stays alive) -/
theorem finding_untracked_worker_double :
    (interruptedRun c14Cfg c14P [] 4 c14Sched 9 [c14All] (some 0)).outcome = .interrupted ∧
    (interruptedRun c14Cfg c14P [] 4 c14Sched 9 [c14All] (some 0)).final.alive = [1] ∧
    (interruptedRun c14Cfg c14P [] 4 c14Sched 9 [c14All] (some 0)).final.terminated = [0] := by decide

/-- an interrupt after `future_to_task.pop(future)` and before `complete_task` (k = 14): the popped
    task is not yielded again, no `KeyError`; task 1 is still drained and cached -/
example :
    (interruptedRun c14Cfg c14P [] 4 c14Sched 14 [c14All, c14All, c14All] none).outcome = .interrupted ∧
    (interruptedRun c14Cfg c14P [] 4 c14Sched 14 [c14All, c14All, c14All] none).final.alive = [] ∧
    (interruptedRun c14Cfg c14P [] 4 c14Sched 14 [c14All, c14All, c14All] none).final.rs.store.map (·.1) = [1, 0] := by
  decide

/-- a double interrupt while both workers run (k = 12, second interrupt before the first drain
    round): both terminated, nothing cached, `KeyboardInterrupt` -/
example :
    (interruptedRun c14Cfg c14P [] 4 c14Sched 12 [c14First, c14First, c14First] (some 0)).outcome = .interrupted ∧
    (interruptedRun c14Cfg c14P [] 4 c14Sched 12 [c14First, c14First, c14First] (some 0)).final.alive = [] ∧
    (interruptedRun c14Cfg c14P [] 4 c14Sched 12 [c14First, c14First, c14First] (some 0)).final.terminated = [0, 1] ∧
    (interruptedRun c14Cfg c14P [] 4 c14Sched 12 [c14First, c14First, c14First] (some 0)).final.rs.store = [] := by
  decide

/-- the hypothesis `Tr` of the `_partial` theorems is satisfiable at an instant with live workers
    (k = 12: both workers running, both tracked) … -/
example : Tr c14Cfg (stateAt c14Cfg c14P [] 4 c14Sched 12) ∧
    (stateAt c14Cfg c14P [] 4 c14Sched 12).alive = [0, 1] :=
  ⟨⟨by decide, by decide, by decide, by decide, by decide, by decide, by decide, by decide⟩, by decide⟩

/-- … and fails exactly in the finding's window (k = 9) -/
example : ¬ Tr c14Cfg (stateAt c14Cfg c14P [] 4 c14Sched 9) := fun h => absurd h.aliveRun (by decide)

/-- serial runner, re-execution of a cached key (`bust_cache`, entries 0 ↦ 5 and 1 ↦ 6 present):
    an interrupt INSIDE `BaseCache.save` (k = 7: after `serialSaveBegin`, before `serialSaveEnd`)
    runs save's cleanup, which deletes the key — the old entry of task 0 is gone, task 1's stays;
    one step earlier (k = 6) the old entry is intact, one step later (k = 8) the new one is there.
    `store_consistent` covers all three: entries are only ever prior or genuinely computed ones. -/
example :
    (interruptedRun { c14Cfg with backend := .serial, bust := true } c14P [(0, 5), (1, 6)] 4 c14Sched 6 [] none).final.rs.store
      = [(0, 5), (1, 6)] ∧
    (interruptedRun { c14Cfg with backend := .serial, bust := true } c14P [(0, 5), (1, 6)] 4 c14Sched 7 [] none).final.rs.store
      = [(1, 6)] ∧
    (interruptedRun { c14Cfg with backend := .serial, bust := true } c14P [(0, 5), (1, 6)] 4 c14Sched 8 [] none).final.rs.store
      = [(0, 0), (1, 6)] ∧
    (interruptedRun { c14Cfg with backend := .serial, bust := true } c14P [(0, 5), (1, 6)] 4 c14Sched 7 [] none).outcome
      = .interrupted := by decide

end Lt
