import LabtechModel.Proofs.Workers
/-!
# C14 — One Ctrl-C drains the run gracefully; a second one stops it at once  (interim obligations)

The statement-level interrupt model (M10: prefixes of primitive lists, handler and double-interrupt
streams, refinement to `Lt.iteration`) is being built in `Model/Intr.lean`; until it is merged this
file carries the facts about the handler's two runner operations that the coarse model can state.
-/
namespace Lt.Props.C14
open Lt

/-- `runner.cancel()` for the process runners: every queued future is cancelled and dropped, running
    processes are untouched -/
def cancel (rs : RS) : RS := { rs with queued := [] }

/-- `runner.stop()`: every running process is terminated and its future cancelled -/
def stop (rs : RS) : RS := { rs with running := [] }

theorem takeN_nil0 {α} (n : Nat) : (takeN n ([] : List α)) = ([], []) := by
  cases n <;> rfl

/-- after `cancel` no process is ever started again by `_start_processes`, whatever happens to the
    running ones: nothing is queued -/
theorem no_start_after_cancel (cfg : Config) (rs : RS) :
    (startProcesses cfg (cancel rs)).running = (cancel rs).running ∧
    (startProcesses cfg (cancel rs)).trace = (cancel rs).trace := by
  simp [startProcesses, cancel, takeN_nil0]

/-- … and that stays true through any number of drain rounds: a drain round (wait + processing of the
    yields, no submit phase) never enqueues -/
theorem drain_round_keeps_queue_empty (cfg : Config) (p : Problem) (req : List Tid) (c : Choice) (rs : RS)
    (h : rs.queued = []) : (waitProcess cfg p req c rs).queued = [] := by
  simp only [waitProcess]
  rw [processYields_queued]
  simp [startProcesses, h, takeN_nil0]

/-- `stop` leaves no running process, so the single processing round that follows has nothing to wait for -/
theorem stop_leaves_nothing_running (rs : RS) : (stop rs).running = [] := rfl

example : (cancel { ts := {}, queued := [⟨1, false, none⟩], running := [⟨0, false, none⟩] }).queued = [] ∧
    (stop { ts := {}, running := [⟨0, false, none⟩] }).running = [] := ⟨rfl, rfl⟩

end Lt.Props.C14
