import LabtechModel.Proofs.IntrWindow
import LabtechModel.Proofs.IntrLimitW
/-!
# C14 — one Ctrl-C drains the run gracefully; a second one stops it at once

Model: `Model/Intr.lean` (M10). `Proofs/IntrRefine.lean` proves that M10 executed without an
interrupt IS the validated coarse model (`prims_refine_iteration`, `run_refine`). An interrupt
instant is an index `k` into the main loop's primitive stream (`∀ k` = "every interrupt instant"),
a second interrupt an index `k2 = some m` into the first handler's stream (`m = 0`: before the
first `cancel` step; the handler logs inside its inner `try`, so every `m` leads to the second
handler). `m ≥` the handler's length = the second interrupt arrived after the handler was done:
same as no second interrupt.

`interrupt_before_loop` / `interrupt_in_finally`: an interrupt during planning (before the guarded
region) or inside `finally` changes no modelled state and propagates; nothing to prove in M10.
-/
namespace Lt

variable (cfg : Config) (p : Problem) (store : Store) (fuel : Nat) (sched ds : List Choice)

/-- A single interrupt at ANY instant `k` before the run completed: `run_tasks` leaves by
    `raise KeyboardInterrupt` (`interrupted`), or is still draining when the given drain schedule
    ends (`waiting`: the handler is still inside `while runner.pending_task_count() > 0`; that a
    fair, long enough drain schedule excludes it is NOT proved here — C11's liveness argument at
    loop heads applies to the drain rounds but has not been transferred to M10). It never returns normally and
    the handler's bookkeeping never hits `KeyError`. The only other exit: a task FAILS during the
    drain and `continue_on_failure` is off — then the handler raises `LabError`. -/
theorem single_interrupt_raises_interrupt (k : Nat) (hk : k < (mainOf cfg p store fuel sched).length) :
    (interruptedRun cfg p store fuel sched k ds none).outcome = .interrupted ∨
    (interruptedRun cfg p store fuel sched k ds none).outcome = .waiting ∨
      (cfg.contOnFail = false ∧
        ∃ t, (interruptedRun cfg p store fuel sched k ds none).outcome = .raised (.labError t)) := by
  have hk' : k < (mainStream cfg p (reqTids p) sched (initIS cfg p store fuel)).length := hk
  simp only [interruptedRun, hk', if_true]
  have hq := handler_Q (cfg := cfg) (p := p) (reqTids p) ds _ (stateAt_Q (cfg := cfg) (p := p) store fuel sched k)
    (handlerPrims cfg p (reqTids p) ds (stateAt cfg p store fuel sched k)).length
  have hl := handler_LabOK (cfg := cfg) (p := p) (reqTids p) ds _ (stateAt_LabOK (cfg := cfg) (p := p) store fuel sched k)
    (handlerPrims cfg p (reqTids p) ds (stateAt cfg p store fuel sched k)).length
  rw [take_all] at hq hl
  exact handlerOutcome_cases _ _ hq.1 hl

theorem single_interrupt_never_returns_nor_keyerror (k : Nat)
    (hk : k < (mainOf cfg p store fuel sched).length) :
    (interruptedRun cfg p store fuel sched k ds none).outcome ≠ .returned ∧
    (interruptedRun cfg p store fuel sched k ds none).outcome ≠ .raised .keyError := by
  rcases single_interrupt_raises_interrupt cfg p store fuel sched ds k hk with h | h | ⟨_, t, h⟩ <;>
    rw [h] <;> simp

/-- A second interrupt at ANY instant `m` of the first handler: `KeyboardInterrupt` again — never a
    normal return, never `KeyError`, and no waiting (the outcome is not `waiting` whatever the drain
    schedule); only a task failure seen by the single last processing round, with
    `continue_on_failure` off, turns into `LabError`. -/
theorem double_interrupt_raises_interrupt (k m : Nat) (hk : k < (mainOf cfg p store fuel sched).length)
    (hm : m < (handlerPrims cfg p (reqTids p) ds (stateAt cfg p store fuel sched k)).length) :
    (interruptedRun cfg p store fuel sched k ds (some m)).outcome = .interrupted ∨
      (cfg.contOnFail = false ∧
        ∃ t, (interruptedRun cfg p store fuel sched k ds (some m)).outcome = .raised (.labError t)) := by
  rw [interruptedRun_double store fuel sched ds k m hk hm]
  have hq := handler_Q (cfg := cfg) (p := p) (reqTids p) ds _
    (stateAt_Q (cfg := cfg) (p := p) store fuel sched k) m
  have hl := handler_LabOK (cfg := cfg) (p := p) (reqTids p) ds _
    (stateAt_LabOK (cfg := cfg) (p := p) store fuel sched k) m
  exact handlerOutcome_true_cases _ (second_Q (reqTids p) _ hq).1 (second_LabOK (reqTids p) _ hl)

/-- No task is submitted and no worker is started after the (first) interrupt — with or without a
    second interrupt, at any instants: the trace only grows, and what it gains contains no
    `Ev.start` and no `Ev.submit`. (The serial runner's `run()` in the caller counts as a start.) -/
theorem no_start_after_interrupt (k : Nat) (k2 : Option Nat)
    (hk : k < (mainOf cfg p store fuel sched).length) :
    ∃ l, (interruptedRun cfg p store fuel sched k ds k2).final.rs.trace =
        (interruptedRun cfg p store fuel sched k ds k2).atIntr.rs.trace ++ l ∧
      ∀ e ∈ l, (∀ t, e ≠ Ev.start t) ∧ (∀ t uc, e ≠ Ev.submit t uc) := by
  have single : ∃ l, (interruptedRun cfg p store fuel sched k ds none).final.rs.trace =
        (interruptedRun cfg p store fuel sched k ds none).atIntr.rs.trace ++ l ∧
      ∀ e ∈ l, (∀ t, e ≠ Ev.start t) ∧ (∀ t uc, e ≠ Ev.submit t uc) := by
    rw [interruptedRun_single store fuel sched ds k hk]
    obtain ⟨l, h1, h2⟩ := handler_trace (cfg := cfg) (p := p) (reqTids p) ds
      (stateAt cfg p store fuel sched k)
      (handlerPrims cfg p (reqTids p) ds (stateAt cfg p store fuel sched k)).length
    rw [take_all] at h1
    exact ⟨l, h1, fun e he => evLaunch_false e (h2 e he)⟩
  cases k2 with
  | none => exact single
  | some m =>
    by_cases hm : m < (handlerPrims cfg p (reqTids p) ds (stateAt cfg p store fuel sched k)).length
    · rw [interruptedRun_double store fuel sched ds k m hk hm]
      obtain ⟨l1, h1, h1'⟩ := handler_trace (cfg := cfg) (p := p) (reqTids p) ds
        (stateAt cfg p store fuel sched k) m
      obtain ⟨l2, h2, h2'⟩ := second_trace (cfg := cfg) (p := p) (reqTids p)
        (runPrims cfg p ((handlerPrims cfg p (reqTids p) ds (stateAt cfg p store fuel sched k)).take m)
          (stateAt cfg p store fuel sched k))
      refine ⟨l1 ++ l2, ?_, ?_⟩
      · simp only; rw [h2, h1, List.append_assoc]
      · intro e he
        rcases List.mem_append.mp he with he | he
        · exact evLaunch_false e (h1' e he)
        · exact evLaunch_false e (h2' e he)
    · rw [interruptedRun_late store fuel sched ds k m hk hm]; exact single

/-- The cache is left consistent: whatever the interrupt instants (any `k`, any `k2`, also an
    uninterrupted run), every store entry at exit either was there before the run or is the value
    that a recorded execution of that very task's `run()` computed (and the task type is
    cacheable): no foreign and no invented entries. (Torn files are the subject of C13.) -/
theorem store_consistent (k : Nat) (k2 : Option Nat) (t : Tid) (v : Val)
    (h : (t, v) ∈ (interruptedRun cfg p store fuel sched k ds k2).final.rs.store) :
    (t, v) ∈ store ∨
    (p.cacheable (p.ty t) = true ∧
      ∃ seen, Ev.exec t seen ∈ (interruptedRun cfg p store fuel sched k ds k2).final.rs.trace ∧
        p.behave t seen = some v) := by
  have key : SI p store (interruptedRun cfg p store fuel sched k ds k2).final := by
    have h0 := SI_init (cfg := cfg) (p := p) store fuel
    unfold interruptedRun
    simp only
    split
    · split
      · split
        · exact runPrims_SI _ _ _ (runPrims_SI _ _ _ (runPrims_SI _ _ _ h0))
        · exact runPrims_SI _ _ _ (runPrims_SI _ _ _ h0)
      · exact runPrims_SI _ _ _ (runPrims_SI _ _ _ h0)
    · exact runPrims_SI _ _ _ h0
  exact key.1 t v h

/-!
## Workers that were executing at the interrupt

FULL STATEMENT (false — finding F14a, `untracked_worker_after_interrupt_between_start_and_tracking`):
  `drain_waits_for_running`: for every `k < length`, with no second interrupt, if the handler leaves
  by `KeyboardInterrupt` then no worker process is alive at exit.
It fails for `k` in the submit path between `process.start()` and `future_to_task[future] = task`
(`procStart j` … `regFuture t`): the worker exists, but is not (yet) in the running map, or is in it
without being in `future_to_task`, so `while pending_task_count() > 0` does not wait for it.
Witnesses: `finding_untracked_worker_*` below. What IS proved: from every interrupt instant at
which every live worker is tracked (`Tr`: in the running map, its future in `future_to_task`,
uncancelled, unfinished — true inside the wait/processing phase), the drain loop's exit implies
that nobody is alive, and everyone who was alive ran to completion (its record is in the trace;
the model applies a worker's save in the same atomic step that consumes its report) or died by
itself. (`terminated` is only ever extended by `stopOne`, which the first handler does not emit.)
-/

/-- `drain_waits_for_running`, proved part: hypothesis `Tr` at the interrupt instant. -/
theorem drain_waits_for_running_partial (k : Nat) (hk : k < (mainOf cfg p store fuel sched).length)
    (htr : Tr cfg (stateAt cfg p store fuel sched k))
    (hout : (interruptedRun cfg p store fuel sched k ds none).outcome = .interrupted) :
    (interruptedRun cfg p store fuel sched k ds none).final.alive = [] ∧
    ∀ t ∈ (stateAt cfg p store fuel sched k).alive,
      t ∈ (interruptedRun cfg p store fuel sched k ds none).final.terminated ∨ p.dies t = true ∨
      t ∈ ranOf (interruptedRun cfg p store fuel sched k ds none).final.rs.trace := by
  rw [interruptedRun_single store fuel sched ds k hk] at hout ⊢
  simp only at hout ⊢
  have hT := (always_Tr_handler (cfg := cfg) (p := p) (reqTids p) ds _ htr).last
  obtain ⟨hd, _⟩ := handlerOutcome_interrupted _ _ hout
  have hf : (runPrims cfg p (handlerPrims cfg p (reqTids p) ds (stateAt cfg p store fuel sched k))
      (stateAt cfg p store fuel sched k)).rs.futs = [] := by
    simpa [List.isEmpty_iff] using hd
  have hal := hT.no_alive_of_drained hf
  refine ⟨hal, ?_⟩
  intro t ht
  have hacc := runPrims_Acc (cfg := cfg) (p := p) (stateAt cfg p store fuel sched k).alive
    (handlerPrims cfg p (reqTids p) ds (stateAt cfg p store fuel sched k)) _ (fun t ht => Or.inl ht)
  rcases hacc t ht with h | h
  · rw [hal] at h; simp at h
  · exact h

/-- `double_interrupt_stops`, proved part (same hypothesis `Tr` at the first interrupt; the FULL
    STATEMENT without it is false for the same windows, witness `finding_untracked_worker_double`):
    a second interrupt at any instant `m` of the first handler that ends in `KeyboardInterrupt`
    leaves nobody alive — every worker alive at the first interrupt was terminated by `stop()`,
    or had reported / died before. By construction (`secondPrims`,
    `double_interrupt_one_last_round`) nothing but `cancel`, `stop` and ONE processing round
    follows the second interrupt, and `double_interrupt_raises_interrupt` shows the outcome is
    never `waiting`. -/
theorem double_interrupt_stops_partial (k m : Nat) (hk : k < (mainOf cfg p store fuel sched).length)
    (hm : m < (handlerPrims cfg p (reqTids p) ds (stateAt cfg p store fuel sched k)).length)
    (htr : Tr cfg (stateAt cfg p store fuel sched k))
    (hout : (interruptedRun cfg p store fuel sched k ds (some m)).outcome = .interrupted) :
    (interruptedRun cfg p store fuel sched k ds (some m)).final.alive = [] ∧
    ∀ t ∈ (stateAt cfg p store fuel sched k).alive,
      t ∈ (interruptedRun cfg p store fuel sched k ds (some m)).final.terminated ∨ p.dies t = true ∨
      t ∈ ranOf (interruptedRun cfg p store fuel sched k ds (some m)).final.rs.trace := by
  rw [interruptedRun_double store fuel sched ds k m hk hm] at hout ⊢
  simp only at hout ⊢
  have hT1 := (always_Tr_handler (cfg := cfg) (p := p) (reqTids p) ds _ htr).prefix m
  obtain ⟨_, hnr⟩ := handlerOutcome_interrupted _ _ hout
  -- the state at the second interrupt is running: otherwise the second handler changes nothing
  have hnoret : NoRet (runPrims cfg p
      ((handlerPrims cfg p (reqTids p) ds (stateAt cfg p store fuel sched k)).take m)
      (stateAt cfg p store fuel sched k)) := by
    apply runPrims_NoRet
    apply runPrims_NoRet
    intro r hr; simp [initIS, initRS] at hr
  have hrun1 : (runPrims cfg p ((handlerPrims cfg p (reqTids p) ds (stateAt cfg p store fuel sched k)).take m)
      (stateAt cfg p store fuel sched k)).rs.status = .running := by
    cases hs : (runPrims cfg p ((handlerPrims cfg p (reqTids p) ds (stateAt cfg p store fuel sched k)).take m)
      (stateAt cfg p store fuel sched k)).rs.status with
    | running => rfl
    | returned r => exact absurd hs (hnoret r)
    | raised e =>
      exfalso
      apply hnr e
      rw [runPrims_stopped _ _ (by rw [hs]; simp)]
      exact hs
  have hal := second_no_alive (cfg := cfg) (p := p) (reqTids p) _ hT1 hrun1
  refine ⟨hal, ?_⟩
  intro t ht
  have hacc := runPrims_Acc (cfg := cfg) (p := p) (stateAt cfg p store fuel sched k).alive
    (secondPrims cfg p (reqTids p) (runPrims cfg p
      ((handlerPrims cfg p (reqTids p) ds (stateAt cfg p store fuel sched k)).take m)
      (stateAt cfg p store fuel sched k))) _
    (runPrims_Acc (cfg := cfg) (p := p) (stateAt cfg p store fuel sched k).alive
      ((handlerPrims cfg p (reqTids p) ds (stateAt cfg p store fuel sched k)).take m)
      (stateAt cfg p store fuel sched k) (fun t ht => Or.inl ht))
  rcases hacc t ht with h | h
  · rw [hal] at h; simp at h
  · exact h

/-- after the second interrupt: `cancel()`, `stop()`, one `process_completed_tasks()`, nothing else -/
theorem double_interrupt_one_last_round (s : IS) :
    ∃ c0 st, secondPrims cfg p (reqTids p) s = c0 ++ st ++ waitPrims cfg p (reqTids p) noWait
        (runPrims cfg p st (runPrims cfg p c0 s)) ∧
      c0 = cancelPrims cfg s ∧ st = stopPrims cfg (runPrims cfg p c0 s) :=
  ⟨_, _, rfl, rfl, rfl⟩

/-! ## non-vacuity and the finding's witnesses: two independent tasks and one that needs both -/
def c14P : Problem where
  tidOf := fun i => i
  children := fun i => if i = 2 then [0, 1] else []
  requested := [2]
  ty := fun _ => 0
  maxPar := fun _ => none
  cacheable := fun _ => true
  fails := fun _ => false
  dies := fun _ => false
  behave := fun t vs => some (1000 * t + (vs.map (fun o => o.getD 7)).foldl (· + ·) 0)

def c14Cfg : Config := { backend := .fork, maxWorkers := 2, contOnFail := true, bust := false }
def c14All : Choice := ⟨fun _ => true⟩
def c14First : Choice := ⟨fun i => i == 0⟩
def c14Sched : List Choice := [c14All, c14All, c14All, c14All]

/- the main stream (43 primitives): 0 startTask 0, 1 enqueue 0, 2 procStart 0, 3 regRunning 0,
   4 unregPending 0, 5 regFuture 0, 6..11 the same for task 1, 12 consumeResults, 13 popFuture 0,
   14 storeResult 0, 15 markInstances 0, 16 removeActive 0, 17 unblockOne 0 2, 18 removeDone, … -/
example : (mainOf c14Cfg c14P [] 4 c14Sched).length = 43 := by decide

/-- an interrupt between `process.start()` and the registration in the running map (the window in
    which the drain used to hang, D14): the drain terminates with `KeyboardInterrupt` … -/
example : (interruptedRun c14Cfg c14P [] 4 c14Sched 9 [c14All, c14All, c14All] none).outcome = .interrupted := by
  decide

/-- … but FINDING F14a (a): that worker (task 1) is alive at exit, nobody waited for it -/
theorem finding_untracked_worker_start_window :
    (interruptedRun c14Cfg c14P [] 4 c14Sched 9 [c14All, c14All, c14All] none).final.alive = [1] := by decide

/-- FINDING F14a (c): interrupt after the worker is in the running map but before
    `future_to_task[future] = task` (k = 11): `KeyboardInterrupt`, worker 1 still alive -/
theorem finding_untracked_worker_submit_window :
    (interruptedRun c14Cfg c14P [] 4 c14Sched 11 [c14First, c14First, c14First] none).outcome = .interrupted ∧
    (interruptedRun c14Cfg c14P [] 4 c14Sched 11 [c14First, c14First, c14First] none).final.alive = [1] := by
  decide

/-- FINDING F14a, double interrupt: the worker of the start window is not in the running map, so
    `stop()` does not terminate it (task 0's worker is terminated, task 1's stays alive) -/
theorem finding_untracked_worker_double :
    (interruptedRun c14Cfg c14P [] 4 c14Sched 9 [c14All] (some 0)).outcome = .interrupted ∧
    (interruptedRun c14Cfg c14P [] 4 c14Sched 9 [c14All] (some 0)).final.alive = [1] ∧
    (interruptedRun c14Cfg c14P [] 4 c14Sched 9 [c14All] (some 0)).final.terminated = [0] := by decide

/-- an interrupt after `future_to_task.pop(future)` and before `complete_task` (k = 14): the popped
    task is not yielded again, no `KeyError`; task 1 is still drained and cached -/
example :
    (interruptedRun c14Cfg c14P [] 4 c14Sched 14 [c14All, c14All, c14All] none).outcome = .interrupted ∧
    (interruptedRun c14Cfg c14P [] 4 c14Sched 14 [c14All, c14All, c14All] none).final.alive = [] ∧
    (interruptedRun c14Cfg c14P [] 4 c14Sched 14 [c14All, c14All, c14All] none).final.rs.store.map (·.1) = [1, 0] := by
  decide

/-- a double interrupt while both workers run (k = 12, second interrupt before the first drain
    round): both terminated, nothing cached, `KeyboardInterrupt` -/
example :
    (interruptedRun c14Cfg c14P [] 4 c14Sched 12 [c14First, c14First, c14First] (some 0)).outcome = .interrupted ∧
    (interruptedRun c14Cfg c14P [] 4 c14Sched 12 [c14First, c14First, c14First] (some 0)).final.alive = [] ∧
    (interruptedRun c14Cfg c14P [] 4 c14Sched 12 [c14First, c14First, c14First] (some 0)).final.terminated = [0, 1] ∧
    (interruptedRun c14Cfg c14P [] 4 c14Sched 12 [c14First, c14First, c14First] (some 0)).final.rs.store = [] := by
  decide

/-- the hypothesis `Tr` of the `_partial` theorems is satisfiable at an instant with live workers
    (k = 12: both workers running, both tracked) … -/
example : Tr c14Cfg (stateAt c14Cfg c14P [] 4 c14Sched 12) ∧
    (stateAt c14Cfg c14P [] 4 c14Sched 12).alive = [0, 1] :=
  ⟨⟨by decide, by decide, by decide, by decide, by decide, by decide, by decide, by decide⟩, by decide⟩

/-- … and fails exactly in the finding's window (k = 9) -/
example : ¬ Tr c14Cfg (stateAt c14Cfg c14P [] 4 c14Sched 9) := fun h => absurd h.aliveRun (by decide)

/-- serial runner, re-execution of a cached key (`bust_cache`, entries 0 ↦ 5 and 1 ↦ 6 present):
    an interrupt INSIDE `BaseCache.save` (k = 7: after `serialSaveBegin`, before `serialSaveEnd`)
    runs save's cleanup, which deletes the key — the old entry of task 0 is gone, task 1's stays;
    one step earlier (k = 6) the old entry is intact, one step later (k = 8) the new one is there.
    `store_consistent` covers all three: entries are only ever prior or genuinely computed ones. -/
example :
    (interruptedRun { c14Cfg with backend := .serial, bust := true } c14P [(0, 5), (1, 6)] 4 c14Sched 6 [] none).final.rs.store
      = [(0, 5), (1, 6)] ∧
    (interruptedRun { c14Cfg with backend := .serial, bust := true } c14P [(0, 5), (1, 6)] 4 c14Sched 7 [] none).final.rs.store
      = [(1, 6)] ∧
    (interruptedRun { c14Cfg with backend := .serial, bust := true } c14P [(0, 5), (1, 6)] 4 c14Sched 8 [] none).final.rs.store
      = [(0, 0), (1, 6)] ∧
    (interruptedRun { c14Cfg with backend := .serial, bust := true } c14P [(0, 5), (1, 6)] 4 c14Sched 7 [] none).outcome
      = .interrupted := by decide

/-!
## (A) The drain loop of the first handler ends

`single_interrupt_raises_interrupt` leaves `waiting` as a possible outcome because nothing there says
that `while runner.pending_task_count() > 0` ends. It does: at EVERY interrupt instant every tracked
future is cancelled, done, the future of a dead process, in the running map or still queued
(`tracked_future_covered`; no hypothesis, also inside the F14a window) — there is no instant at which
a future is tracked but nowhere, which is what made the drain spin for ever before D14 was repaired.
`cancel()` cancels the queued ones; one drain round pops everything that is cancelled / done / dead;
what stays tracked is in the running map; a fair round (`FairDrain`: the first running worker
reports) shrinks the running map. So after at most `len(running map at the interrupt) + 1` fair
rounds the loop has ended: NO HANG at any instant `k` (`drain_terminates`). Outside the window the
running map is no longer than `future_to_task` (`drain_terminates_tracked`).
-/

/-- at every interrupt instant (process runners, no exception propagating) every tracked future is
    cancelled, or holds an outcome, or belongs to a dead process the dead-process loop will mark,
    or is in the running map, or is still queued in the executor -/
theorem tracked_future_covered (k : Nat) (hb : cfg.backend ≠ .serial)
    (hrun : (stateAt cfg p store fuel sched k).rs.status = .running) :
    ∀ t ∈ (stateAt cfg p store fuel sched k).rs.futs,
      t ∈ (stateAt cfg p store fuel sched k).cancelled ∨
      t ∈ (stateAt cfg p store fuel sched k).done.map (·.1) ∨
      t ∈ (stateAt cfg p store fuel sched k).zombies ∨
      t ∈ (stateAt cfg p store fuel sched k).rs.running.map Job.tid ∨
      t ∈ (stateAt cfg p store fuel sched k).rs.queued.map Job.tid :=
  fun t ht => stateAt_Cov (cfg := cfg) (p := p) store fuel sched k hb hrun t (Or.inl ht)

/-- Liveness of the drain, at ANY interrupt instant `k`: under a fair drain schedule with more
    rounds than entries in the running map at the interrupt, the handler is never still waiting. -/
theorem drain_terminates (k : Nat) (hk : k < (mainOf cfg p store fuel sched).length)
    (hfair : FairDrain ds)
    (hlen : (stateAt cfg p store fuel sched k).rs.running.length + 1 ≤ ds.length) :
    (interruptedRun cfg p store fuel sched k ds none).outcome ≠ .waiting := by
  rw [interruptedRun_single store fuel sched ds k hk]
  simp only
  have hfut := handler_fair (cfg := cfg) (p := p) (reqTids p) ds (stateAt cfg p store fuel sched k) hfair
    (stateAt_Cov store fuel sched k) hlen
  have hnoret : NoRet (runPrims cfg p (handlerPrims cfg p (reqTids p) ds (stateAt cfg p store fuel sched k))
      (stateAt cfg p store fuel sched k)) := by
    apply runPrims_NoRet
    apply runPrims_NoRet
    intro r hr; simp [initIS, initRS] at hr
  unfold handlerOutcome
  cases hs : (runPrims cfg p (handlerPrims cfg p (reqTids p) ds (stateAt cfg p store fuel sched k))
      (stateAt cfg p store fuel sched k)).rs.status with
  | running => simp [hfut hs]
  | returned r => exact absurd hs (hnoret r)
  | raised e => simp

/-- A single interrupt at ANY instant `k`, fair drain: `run_tasks` leaves by `KeyboardInterrupt` —
    or, only without `continue_on_failure`, by `LabError` for a task that failed during the drain. -/
theorem single_interrupt_raises_interrupt_fair (k : Nat) (hk : k < (mainOf cfg p store fuel sched).length)
    (hfair : FairDrain ds)
    (hlen : (stateAt cfg p store fuel sched k).rs.running.length + 1 ≤ ds.length) :
    (interruptedRun cfg p store fuel sched k ds none).outcome = .interrupted ∨
      (cfg.contOnFail = false ∧
        ∃ t, (interruptedRun cfg p store fuel sched k ds none).outcome = .raised (.labError t)) := by
  rcases single_interrupt_raises_interrupt cfg p store fuel sched ds k hk with h | h | h
  · exact Or.inl h
  · exact absurd h (drain_terminates cfg p store fuel sched ds k hk hfair hlen)
  · exact Or.inr h

/-!
## (B) Where `Tr` holds: exactly outside the start-and-track windows

`inWindow pre` (decidable, a fold over the executed prefix `pre` of the main stream):
`_start_processes` has executed `process.start()` for a future and not yet `del _pending…[future]`
(`procStart j … unregPending j`, called from `submit` or from `wait`), or `submit_task(t)` is in
progress and the worker of `t` has been started (`procStart t … regFuture t`).
-/

/-- `Tr` holds at every interrupt instant outside the window -/
theorem tr_outside_window (k : Nat)
    (hw : inWindow ((mainOf cfg p store fuel sched).take k) = false) :
    Tr cfg (stateAt cfg p store fuel sched k) :=
  stateAt_Tr_outside store fuel sched k hw

/-- process runners: the window is EXACT — at every interrupt instant, `Tr` holds iff the instant is
    outside the window (inside: right after `process.start()` the worker is alive and in no map;
    after its registration as running the future is pending and running at once; after
    `del _pending…` in the submit path the running entry's future is not in `future_to_task`) -/
theorem tr_iff_outside_window (hb : cfg.backend ≠ .serial) (k : Nat) :
    Tr cfg (stateAt cfg p store fuel sched k) ↔
      inWindow ((mainOf cfg p store fuel sched).take k) = false := by
  constructor
  · intro htr
    cases hw : inWindow ((mainOf cfg p store fuel sched).take k) with
    | false => rfl
    | true => exact absurd htr (stateAt_not_Tr_inside hb store fuel sched k hw)
  · exact tr_outside_window cfg p store fuel sched k

/-- `Tr` holds at every loop head: the state at the head of iteration `i` (= the end of the main
    stream of the schedule cut after `i` rounds, which is an interrupt instant `k` of the run) -/
theorem tr_at_loop_heads (i : Nat) :
    Tr cfg (runPrims cfg p (mainOf cfg p store fuel (sched.take i)) (initIS cfg p store fuel)) ∧
    ∃ k, (mainOf cfg p store fuel sched).take k = mainOf cfg p store fuel (sched.take i) :=
  ⟨mainEnd_Tr store fuel (sched.take i), mainStream_take (reqTids p) sched _ i⟩

/-- a loop head is outside the window -/
theorem loop_head_outside_window (i : Nat) (hb : cfg.backend ≠ .serial) :
    inWindow (mainOf cfg p store fuel (sched.take i)) = false :=
  mainEnd_outside store fuel (sched.take i) hb

/-- `drain_waits_for_running` with the window as the only hypothesis: from every interrupt instant
    outside the window, when the handler leaves by `KeyboardInterrupt` no worker is alive, and
    everyone who was alive at the interrupt ran to completion or died by itself. -/
theorem drain_waits_for_running_outside_window (k : Nat) (hk : k < (mainOf cfg p store fuel sched).length)
    (hw : inWindow ((mainOf cfg p store fuel sched).take k) = false)
    (hout : (interruptedRun cfg p store fuel sched k ds none).outcome = .interrupted) :
    (interruptedRun cfg p store fuel sched k ds none).final.alive = [] ∧
    ∀ t ∈ (stateAt cfg p store fuel sched k).alive,
      t ∈ (interruptedRun cfg p store fuel sched k ds none).final.terminated ∨ p.dies t = true ∨
      t ∈ ranOf (interruptedRun cfg p store fuel sched k ds none).final.rs.trace :=
  drain_waits_for_running_partial cfg p store fuel sched ds k hk
    (tr_outside_window cfg p store fuel sched k hw) hout

/-- `double_interrupt_stops` with the window (of the FIRST interrupt) as the only hypothesis -/
theorem double_interrupt_stops_outside_window (k m : Nat) (hk : k < (mainOf cfg p store fuel sched).length)
    (hm : m < (handlerPrims cfg p (reqTids p) ds (stateAt cfg p store fuel sched k)).length)
    (hw : inWindow ((mainOf cfg p store fuel sched).take k) = false)
    (hout : (interruptedRun cfg p store fuel sched k ds (some m)).outcome = .interrupted) :
    (interruptedRun cfg p store fuel sched k ds (some m)).final.alive = [] ∧
    ∀ t ∈ (stateAt cfg p store fuel sched k).alive,
      t ∈ (interruptedRun cfg p store fuel sched k ds (some m)).final.terminated ∨ p.dies t = true ∨
      t ∈ ranOf (interruptedRun cfg p store fuel sched k ds (some m)).final.rs.trace :=
  double_interrupt_stops_partial cfg p store fuel sched ds k m hk hm
    (tr_outside_window cfg p store fuel sched k hw) hout

/-- outside the window the running map is no longer than `future_to_task`: the drain needs at most
    `len(future_to_task at the interrupt) + 1` fair rounds -/
theorem drain_terminates_tracked (k : Nat) (hk : k < (mainOf cfg p store fuel sched).length)
    (hw : inWindow ((mainOf cfg p store fuel sched).take k) = false)
    (hfair : FairDrain ds)
    (hlen : (stateAt cfg p store fuel sched k).rs.futs.length + 1 ≤ ds.length) :
    (interruptedRun cfg p store fuel sched k ds none).outcome ≠ .waiting := by
  have htr := tr_outside_window cfg p store fuel sched k hw
  apply drain_terminates cfg p store fuel sched ds k hk hfair
  have h1 : ((stateAt cfg p store fuel sched k).rs.running.map Job.tid).length ≤
      (stateAt cfg p store fuel sched k).rs.futs.length :=
    nodup_subset_length_le _ _ htr.runNd (fun a ha => by
      obtain ⟨j, hj, rfl⟩ := List.mem_map.mp ha
      exact htr.runFut j hj)
  rw [List.length_map] at h1
  omega

/-- The drain bound in terms of the CONFIGURATION: at every interrupt instant the running map holds at
    most `max_workers` entries (the every-instant worker limit of C04, `always_W_main`), so
    `max_workers + 1` fair drain rounds always suffice — whatever the instant, window or not. -/
theorem drain_terminates_max_workers (k : Nat) (hk : k < (mainOf cfg p store fuel sched).length)
    (hfair : FairDrain ds) (hlen : cfg.maxWorkers + 1 ≤ ds.length) :
    (interruptedRun cfg p store fuel sched k ds none).outcome ≠ .waiting := by
  apply drain_terminates cfg p store fuel sched ds k hk hfair
  have hw : WOK cfg (stateAt cfg p store fuel sched k) :=
    (always_W_main (cfg := cfg) (p := p) (reqTids p) sched (initIS cfg p store fuel)
      (WI_init (cfg := cfg) (p := p) store fuel)).prefix k
  have h2 := hw.2
  omega

/-- … and with it the single-interrupt outcome theorem needs no knowledge of the state at the
    interrupt: `max_workers + 1` fair rounds, any instant. -/
theorem single_interrupt_raises_interrupt_max_workers (k : Nat)
    (hk : k < (mainOf cfg p store fuel sched).length)
    (hfair : FairDrain ds) (hlen : cfg.maxWorkers + 1 ≤ ds.length) :
    (interruptedRun cfg p store fuel sched k ds none).outcome = .interrupted ∨
      (cfg.contOnFail = false ∧
        ∃ t, (interruptedRun cfg p store fuel sched k ds none).outcome = .raised (.labError t)) := by
  apply single_interrupt_raises_interrupt_fair cfg p store fuel sched ds k hk hfair
  have hw : WOK cfg (stateAt cfg p store fuel sched k) :=
    (always_W_main (cfg := cfg) (p := p) (reqTids p) sched (initIS cfg p store fuel)
      (WI_init (cfg := cfg) (p := p) store fuel)).prefix k
  have h2 := hw.2
  omega

/-! ### non-vacuity, necessity of the hypotheses, and the window's witnesses -/

/-- three independent tasks on two workers: the third one is started by `_start_processes` called
    from `wait` (main stream: … 14 `regFuture 2`, 15 `consumeResults`, 16 `procStart 2`,
    17 `regRunning 2`, 18 `unregPending 2`, 19 `popFuture 0` …) -/
def c14W : Problem where
  tidOf := fun i => i
  children := fun _ => []
  requested := [0, 1, 2]
  ty := fun _ => 0
  maxPar := fun _ => none
  cacheable := fun _ => true
  fails := fun _ => false
  dies := fun _ => false
  behave := fun t _ => some (1000 * t)

def c14Fair : List Choice := [c14First, c14First, c14First]
def c14WSched : List Choice := [c14First, c14First, c14First, c14First]

theorem c14Fair_fair : FairDrain c14Fair := by unfold FairDrain c14Fair; decide

/-- `drain_terminates` / `single_interrupt_raises_interrupt_fair` are not vacuous: both workers
    running at `k = 12`, three fair rounds in which only the first worker reports -/
example : FairDrain c14Fair ∧
    (stateAt c14Cfg c14P [] 4 c14Sched 12).rs.running.length + 1 ≤ c14Fair.length ∧
    (interruptedRun c14Cfg c14P [] 4 c14Sched 12 c14Fair none).outcome = .interrupted :=
  ⟨c14Fair_fair, by decide, by decide⟩

/-- `drain_terminates_max_workers` is not vacuous: `max_workers = 2`, three fair rounds, every instant
    of the main stream is covered by the one hypothesis (and `max_workers` rounds are not enough:
    the next example) -/
example : c14Cfg.maxWorkers + 1 ≤ c14Fair.length ∧ 12 < (mainOf c14Cfg c14P [] 4 c14Sched).length ∧
    (interruptedRun c14Cfg c14P [] 4 c14Sched 12 c14Fair none).outcome = .interrupted :=
  ⟨by decide, by decide, by decide⟩

/-- the length bound is needed: one fair round is not enough for two running workers … -/
example : FairDrain [c14First] ∧
    (interruptedRun c14Cfg c14P [] 4 c14Sched 12 [c14First] none).outcome = .waiting :=
  ⟨by unfold FairDrain; decide, by decide⟩

/-- … and so is fairness: three rounds in which nobody reports -/
example : (interruptedRun c14Cfg c14P [] 4 c14Sched 12 [noWait, noWait, noWait] none).outcome = .waiting := by
  decide

/-- the drain also ends from INSIDE the window (k = 9, 10, 11), as `drain_terminates` says -/
example : (interruptedRun c14Cfg c14P [] 4 c14Sched 9 c14Fair none).outcome = .interrupted ∧
    (interruptedRun c14Cfg c14P [] 4 c14Sched 10 c14Fair none).outcome = .interrupted ∧
    (interruptedRun c14Cfg c14P [] 4 c14Sched 11 c14Fair none).outcome = .interrupted := by decide

/-- the window predicate on `c14P`'s main stream: outside at the loop head (0), after `enqueue 1`
    (8: nothing started yet) and after `regFuture 1` (12); inside after `procStart 1` (9),
    `regRunning 1` (10), `unregPending 1` (11: tracked as running, future not yet registered) -/
example : ((List.range 14).map (fun k => inWindow ((mainOf c14Cfg c14P [] 4 c14Sched).take k))) =
    [false, false, false, true, true, true, false, false, false, true, true, true, false, false] := by decide

/-- the `_outside_window` theorems are not vacuous (k = 12: outside, both workers alive) -/
example : inWindow ((mainOf c14Cfg c14P [] 4 c14Sched).take 12) = false ∧
    (stateAt c14Cfg c14P [] 4 c14Sched 12).alive = [0, 1] ∧
    (interruptedRun c14Cfg c14P [] 4 c14Sched 12 c14Fair none).outcome = .interrupted ∧
    (interruptedRun c14Cfg c14P [] 4 c14Sched 12 c14Fair none).final.alive = [] := by decide

/-- FINDING F14a is exactly the complement: inside each part of the window the conclusion of
    `drain_waits_for_running` fails for some problem (fair drain, outcome `KeyboardInterrupt`, a worker
    left alive).
    (a) submit path, after `process.start()`, before the running-map registration (k = 9);
    (b) submit path, registered as running and no longer pending, `future_to_task` not yet set (k = 11);
    (c) NEW — `_start_processes` called from `ProcessExecutor.wait`, after `process.start()` and before
        the registration (k = 17 on `c14W`): the future is still pending, `cancel()` cancels it, the
        drain pops it as cancelled, the started worker is in no map;
    (d) NEW — same call, registered as running but still pending too (k = 18): `cancel()` cancels the
        future of a RUNNING worker; the drain pops it as cancelled and does not wait for the worker. -/
theorem window_is_F14a :
    (inWindow ((mainOf c14Cfg c14P [] 4 c14Sched).take 9) = true ∧
      (interruptedRun c14Cfg c14P [] 4 c14Sched 9 c14Fair none).outcome = .interrupted ∧
      (interruptedRun c14Cfg c14P [] 4 c14Sched 9 c14Fair none).final.alive = [1]) ∧
    (inWindow ((mainOf c14Cfg c14P [] 4 c14Sched).take 11) = true ∧
      (interruptedRun c14Cfg c14P [] 4 c14Sched 11 c14Fair none).outcome = .interrupted ∧
      (interruptedRun c14Cfg c14P [] 4 c14Sched 11 c14Fair none).final.alive = [1]) ∧
    (inWindow ((mainOf c14Cfg c14W [] 4 c14WSched).take 17) = true ∧
      (interruptedRun c14Cfg c14W [] 4 c14WSched 17 c14Fair none).outcome = .interrupted ∧
      (interruptedRun c14Cfg c14W [] 4 c14WSched 17 c14Fair none).final.alive = [2]) ∧
    (inWindow ((mainOf c14Cfg c14W [] 4 c14WSched).take 18) = true ∧
      (interruptedRun c14Cfg c14W [] 4 c14WSched 18 c14Fair none).outcome = .interrupted ∧
      (interruptedRun c14Cfg c14W [] 4 c14WSched 18 c14Fair none).final.alive = [2]) := by decide

/-- FINDING (extension of F14a to the wait path), double interrupt: first interrupt after
    `process.start()` inside `wait`'s `_start_processes` (k = 17), second one at once: `stop()`
    terminates the two registered workers, the just-started third one stays alive -/
theorem finding_untracked_worker_wait_path_double :
    (interruptedRun c14Cfg c14W [] 4 c14WSched 17 [c14First] (some 0)).outcome = .interrupted ∧
    (interruptedRun c14Cfg c14W [] 4 c14WSched 17 [c14First] (some 0)).final.alive = [2] ∧
    (interruptedRun c14Cfg c14W [] 4 c14WSched 17 [c14First] (some 0)).final.terminated = [1] := by
  decide

/-- the wait path's window closes with `unregPending` (k = 19 on `c14W`: outside, nobody left) -/
example : inWindow ((mainOf c14Cfg c14W [] 4 c14WSched).take 19) = false ∧
    inWindow ((mainOf c14Cfg c14W [] 4 c14WSched).take 16) = false ∧
    (interruptedRun c14Cfg c14W [] 4 c14WSched 19 c14Fair none).outcome = .interrupted ∧
    (interruptedRun c14Cfg c14W [] 4 c14WSched 19 c14Fair none).final.alive = [] := by decide

/-- `tr_at_loop_heads` / `loop_head_outside_window`: the head of the second iteration of `c14P`'s run is
    interrupt instant 25 (tasks 0 and 1 done, task 2 about to be submitted) -/
example : (mainOf c14Cfg c14P [] 4 (c14Sched.take 1)).length = 25 ∧
    inWindow ((mainOf c14Cfg c14P [] 4 c14Sched).take 25) = false ∧
    (stateAt c14Cfg c14P [] 4 c14Sched 25).rs.futs = [] ∧
    (stateAt c14Cfg c14P [] 4 c14Sched 25).rs.ts.pending = [2] := by decide

/-- `tracked_future_covered`, `tr_iff_outside_window`, `drain_terminates_tracked` and
    `double_interrupt_stops_outside_window` have satisfiable hypotheses (k = 12: process runner, status
    running, outside the window, two tracked futures, three fair rounds; second interrupt at m = 0) -/
example : c14Cfg.backend ≠ .serial ∧ (stateAt c14Cfg c14P [] 4 c14Sched 12).rs.status = .running ∧
    (stateAt c14Cfg c14P [] 4 c14Sched 12).rs.futs = [0, 1] ∧
    (stateAt c14Cfg c14P [] 4 c14Sched 12).rs.futs.length + 1 ≤ c14Fair.length ∧
    0 < (handlerPrims c14Cfg c14P (reqTids c14P) c14Fair (stateAt c14Cfg c14P [] 4 c14Sched 12)).length ∧
    (interruptedRun c14Cfg c14P [] 4 c14Sched 12 c14Fair (some 0)).outcome = .interrupted ∧
    (interruptedRun c14Cfg c14P [] 4 c14Sched 12 c14Fair (some 0)).final.alive = [] := by decide

end Lt
