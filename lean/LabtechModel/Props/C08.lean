import LabtechModel.Proofs.StoreRefine
/-!
# C08 — Cache contents evolve exactly as run / bust_cache / uncache dictate

`lab_refines_map`: for every operation history (any length) over `run_tasks`,
`run_tasks(bust_cache=True)`, `uncache_tasks`, `is_cached`, `cached_tasks`, from any well-formed disk
(in particular the empty one), the concrete storage (key directories written by `BaseCache.save`,
removed by `Storage.delete`, listed by `find_keys`) abstracts after every operation to the plain map
`Tid → Option Stored` that the specification computes, and every operation's output is the
specification's output (task listings compared as sets). The specification (`specRun`, `specUncache`,
`specCachedTasks` in `Model/Store.lean`) is then characterised directly: a run changes only entries of
tasks it executed (`run_changes_only_executed`), every changed entry is the fresh result of this run
(`run_changed_entries_are_fresh`), without `bust_cache` a cached task is never executed and keeps its
entry (`run_keeps_cached`), with `bust_cache` exactly the whole planned closure is executed
(`bust_executes_closure`), `uncache_tasks` removes exactly the named entries (`uncache_removes_exactly`),
and `cache=None` types / `storage=None` never persist anything (`null_inert`).

Hypotheses: `KeyInj U` (C07: distinct tasks, distinct keys), `∀ T, U.namePrefix T T` (a qualname is a
prefix of itself), `Wf U d` for the initial disk (every entry was written by `BaseCache.save`).
-/
namespace Lt.Props.C08
open Lt.Store

/-- **refinement**, by induction over the history (unbounded length) -/
theorem lab_refines_map (U : Universe) (hinj : KeyInj U) (hpre : ∀ T, U.namePrefix T T = true)
    (ops : List Op) (d : Disk) (wf : Wf U d) :
    abs U (histC U d ops).1 = (histA U (abs U d) ops).1 ∧
    outsSame (histC U d ops).2 (histA U (abs U d) ops).2 ∧
    Wf U (histC U d ops).1 := by
  induction ops generalizing d with
  | nil => exact ⟨rfl, trivial, wf⟩
  | cons op ops ih =>
    -- one operation
    have hop : abs U (opC U d op).1 = (opA U (abs U d) op).1 ∧ outSame (opC U d op).2 (opA U (abs U d) op).2 ∧
        Wf U (opC U d op).1 := by
      cases op with
      | run bust g req fl =>
        have r := run_refines U hinj bust g fl req d wf
        refine ⟨r.map, ?_, r.wf⟩
        simp only [opC, opA, outSame, returned, returnedA, r.vals, r.execd, r.loaded]
      | uncache ts =>
        have r := uncache_refines U hinj ts d wf
        exact ⟨r.2, rfl, r.1⟩
      | isCached t =>
        refine ⟨rfl, ?_, wf⟩
        simp only [opC, opA, outSame, labIsCached]
        rw [isCached_iff_load U d t wf hinj]; rfl
      | cachedTasks types =>
        exact ⟨rfl, fun t => cachedTasks_refines U hinj hpre types d wf t, wf⟩
    obtain ⟨h1, h2, h3⟩ := hop
    obtain ⟨i1, i2, i3⟩ := ih (opC U d op).1 h3
    simp only [histC, histA]
    rw [← h1]
    exact ⟨i1, ⟨h2, i2⟩, i3⟩

/-! ## what the specification says, operation by operation -/

/-- `uncache_tasks` removes exactly the named entries and nothing else (concrete statement) -/
theorem uncache_removes_exactly (U : Universe) (hinj : KeyInj U) (ts : List Tid) (d : Disk) (wf : Wf U d) (t : Tid) :
    cLoad U (labUncache U d ts) t = if ts.contains t then none else cLoad U d t := by
  have := congrFun (uncache_refines U hinj ts d wf).2 t
  simpa [abs, specUncache] using this

/-- the three things one planned task can do -/
theorem stepA_cases (U : Universe) (bust : Bool) (g : Nat) (fl : List Tid) (a : AAcc) (t : Tid) :
    (∃ s, stepA U bust g fl a t = { a with vals := (t, some s.val) :: a.vals, loaded := (t, s) :: a.loaded }) ∨
    (∃ v, stepA U bust g fl a t =
      { a with map := if persists U t then aUpdate a.map t { val := v, start := metaStart g t, dur := metaDur g t }
                      else a.map,
               vals := (t, some v) :: a.vals, execd := t :: a.execd }) ∨
    (stepA U bust g fl a t = { a with vals := (t, none) :: a.vals, execd := t :: a.execd }) := by
  unfold stepA
  split
  · next s _ => exact Or.inl ⟨s, rfl⟩
  · split
    · next v _ => exact Or.inr (Or.inl ⟨v, rfl⟩)
    · exact Or.inr (Or.inr rfl)

/-- fold invariant of a specification run -/
theorem spec_fold_inv (U : Universe) (bust : Bool) (g : Nat) (fl : List Tid) (m0 : AMap) (l : List Tid) (a : AAcc)
    (h1 : ∀ x, x ∉ a.execd → a.map x = m0 x)
    (h2 : ∀ x, a.map x ≠ m0 x → x ∈ a.execd ∧ persists U x = true ∧
      ∃ v, a.map x = some { val := v, start := metaStart g x, dur := metaDur g x }) :
    (∀ x, x ∉ (l.foldl (stepA U bust g fl) a).execd → (l.foldl (stepA U bust g fl) a).map x = m0 x) ∧
    (∀ x, (l.foldl (stepA U bust g fl) a).map x ≠ m0 x → x ∈ (l.foldl (stepA U bust g fl) a).execd ∧ persists U x = true ∧
      ∃ v, (l.foldl (stepA U bust g fl) a).map x = some { val := v, start := metaStart g x, dur := metaDur g x }) := by
  induction l generalizing a with
  | nil => exact ⟨h1, h2⟩
  | cons t ts ih =>
    simp only [List.foldl]
    rcases stepA_cases U bust g fl a t with ⟨s, hs⟩ | ⟨v, hv⟩ | hn
    · rw [hs]; exact ih _ h1 h2
    · rw [hv]
      apply ih
      · intro x hx
        simp only [List.mem_cons, not_or] at hx
        simp only
        split
        · simp [aUpdate, hx.1, h1 x hx.2]
        · exact h1 x hx.2
      · intro x hx
        simp only at hx ⊢
        by_cases hp : persists U t = true
        · simp only [hp, if_true] at hx ⊢
          by_cases hxt : x = t
          · subst hxt; exact ⟨List.mem_cons_self .., hp, v, by simp [aUpdate]⟩
          · simp only [aUpdate, hxt, if_false] at hx ⊢
            have := h2 x hx
            exact ⟨List.mem_cons_of_mem _ this.1, this.2⟩
        · simp only [hp, if_false] at hx ⊢
          have := h2 x hx
          exact ⟨List.mem_cons_of_mem _ this.1, this.2⟩
    · rw [hn]
      apply ih
      · intro x hx
        simp only [List.mem_cons, not_or] at hx
        exact h1 x hx.2
      · intro x hx
        have := h2 x hx
        exact ⟨List.mem_cons_of_mem _ this.1, this.2⟩

/-- a run leaves every entry of a task it did not execute exactly as it was -/
theorem run_changes_only_executed (U : Universe) (bust : Bool) (g : Nat) (fl : List Tid) (req : List Tid) (m : AMap) (x : Tid)
    (h : x ∉ (specRun U bust g fl req m).execd) : (specRun U bust g fl req m).map x = m x :=
  (spec_fold_inv U bust g fl m _ { map := m } (fun _ _ => rfl) (fun _ hx => absurd rfl hx)).1 x h

/-- every entry a run adds or replaces belongs to a task this run executed, whose type caches and
    whose Lab has a storage, and holds this run's fresh result and meta -/
theorem run_changed_entries_are_fresh (U : Universe) (bust : Bool) (g : Nat) (fl : List Tid) (req : List Tid) (m : AMap) (x : Tid)
    (h : (specRun U bust g fl req m).map x ≠ m x) :
    x ∈ (specRun U bust g fl req m).execd ∧ persists U x = true ∧
    ∃ v, (specRun U bust g fl req m).map x = some { val := v, start := metaStart g x, dur := metaDur g x } :=
  (spec_fold_inv U bust g fl m _ { map := m } (fun _ _ => rfl) (fun _ hx => absurd rfl hx)).2 x h

/-- without `bust_cache` a task that is cached is never executed, and its entry stays -/
theorem run_keeps_cached (U : Universe) (g : Nat) (fl : List Tid) (req : List Tid) (m : AMap) (x : Tid) (hx : (m x).isSome = true) :
    x ∉ (specRun U false g fl req m).execd ∧ (specRun U false g fl req m).map x = m x := by
  simp only [specRun]
  generalize neededFrom U _ req = l
  have : ∀ (a : AAcc), x ∉ a.execd → a.map x = m x →
      x ∉ (l.foldl (stepA U false g fl) a).execd ∧ (l.foldl (stepA U false g fl) a).map x = m x := by
    induction l with
    | nil => intro a h1 h2; exact ⟨h1, h2⟩
    | cons t ts ih =>
      intro a h1 h2
      simp only [List.foldl]
      apply ih
      · unfold stepA
        by_cases hxt : t = x
        · subst hxt
          obtain ⟨s, hs⟩ := Option.isSome_iff_exists.mp hx
          simp [h2, hs, h1]
        · split
          · exact h1
          · split <;> simp [h1, Ne.symm hxt]
      · unfold stepA
        by_cases hxt : t = x
        · subst hxt
          obtain ⟨s, hs⟩ := Option.isSome_iff_exists.mp hx
          simp [h2, hs]
        · split
          · exact h2
          · split
            · simp only; split
              · simp [aUpdate, Ne.symm hxt, h2]
              · exact h2
            · exact h2
  exact this { map := m } (by simp) rfl

/-- with `bust_cache` nothing is loaded: the whole planned closure of the request is executed,
    dependencies first -/
theorem bust_executes_closure (U : Universe) (g : Nat) (fl : List Tid) (req : List Tid) (m : AMap) :
    (specRun U true g fl req m).execd = (neededFrom U (fun _ => false) req).reverse ∧
    (specRun U true g fl req m).loaded = [] := by
  simp only [specRun, Bool.not_true, Bool.false_and]
  generalize neededFrom U (fun _ => false) req = l
  have : ∀ (a : AAcc), (l.foldl (stepA U true g fl) a).execd = l.reverse ++ a.execd ∧
      (l.foldl (stepA U true g fl) a).loaded = a.loaded := by
    induction l with
    | nil => intro a; simp
    | cons t ts ih =>
      intro a
      simp only [List.foldl]
      obtain ⟨i1, i2⟩ := ih (stepA U true g fl a t)
      rw [i1, i2]
      unfold stepA
      simp only [if_true]
      split <;> simp
  simpa using this { map := m }

/-- `cache=None` types and `storage=None` Labs: no operation ever changes the disk, nothing is ever
    reported cached, nothing is listed -/
theorem null_inert (U : Universe) (h : U.nullStorage = true ∨ ∀ T, U.cacheOf T = .null) (ops : List Op) (d : Disk) :
    (histC U d ops).1 = d ∧ (∀ t, labIsCached U d t = false) ∧ (∀ t s, cLoad U d t ≠ some s) := by
  have hsave : ∀ d t r, cSave U d t r = d := by
    intro d t r; unfold cSave sPut
    rcases h with h | h
    · split <;> simp [h]
    · simp [kindOf, h]
  have hdel : ∀ d t, cDelete U d t = d := by
    intro d t; unfold cDelete sDelete
    rcases h with h | h
    · split <;> simp [h]
    · simp [kindOf, h]
  have hic : ∀ d t, labIsCached U d t = false := by
    intro d t; unfold labIsCached cIsCached sExists
    rcases h with h | h
    · split <;> simp [h]
    · simp [kindOf, h]
  have hload : ∀ d t s, cLoad U d t ≠ some s := by
    intro d t s; unfold cLoad
    rcases h with h | h
    · split <;> simp [h]
    · simp [kindOf, h]
  have hunc : ∀ ts d, labUncache U d ts = d := by
    intro ts
    induction ts with
    | nil => intro d; rfl
    | cons t ts ih3 => intro d; simp only [labUncache, hdel, ite_self]; exact ih3 d
  have hrun : ∀ bust g fl (l : List Tid) (a : Acc), (l.foldl (stepC U bust g fl) a).disk = a.disk := by
    intro bust g fl l
    induction l with
    | nil => intro a; rfl
    | cons t ts ih2 =>
      intro a; simp only [List.foldl]; rw [ih2]
      unfold stepC
      split
      · split <;> rfl
      · split
        · simp [hsave]
        · rfl
  have hdisk : ∀ ops d, (histC U d ops).1 = d := by
    intro ops
    induction ops with
    | nil => intro d; rfl
    | cons op ops ih =>
      intro d
      have hop : (opC U d op).1 = d := by
        cases op with
        | run bust g req fl => simp only [opC, labRun]; exact hrun _ _ _ _ _
        | uncache ts => simp only [opC]; exact hunc ts d
        | isCached t => rfl
        | cachedTasks types => rfl
      simp only [histC]
      rw [hop]
      exact ih d
  exact ⟨hdisk ops d, hic d, hload d⟩

/-- **a failed execution changes nothing**: whenever `run()` of a planned task fails in this run
    (it raises — always, or because this run's context says so — or a dependency result is missing),
    the step leaves the disk exactly as it was; in particular a valid entry of an earlier successful
    execution survives a failed `bust_cache` re-execution -/
theorem failed_execution_changes_nothing (U : Universe) (bust : Bool) (g : Nat) (fl : List Tid) (a : Acc) (t : Tid)
    (h : runTask U g fl a.vals t = none) : (stepC U bust g fl a t).disk = a.disk := by
  unfold stepC
  split
  · split <;> rfl
  · rw [h]

/-- … and on the specification: the entry of a task whose execution in this run failed is the
    entry it had before the run (the run's `vals` records the failure as `none`) -/
theorem run_failed_keeps_entry (U : Universe) (bust : Bool) (g : Nat) (fl : List Tid) (req : List Tid) (m : AMap) (x : Tid)
    (h : (specRun U bust g fl req m).map x ≠ m x) :
    ∃ v, (specRun U bust g fl req m).map x = some { val := v, start := metaStart g x, dur := metaDur g x } :=
  (run_changed_entries_are_fresh U bust g fl req m x h).2.2

/-- what `cached_tasks` attaches to a listed task as `result_meta` is the start/duration stored in
    that task's own entry, i.e. the meta a load of the task returns -/
theorem cached_task_meta_is_stored_meta (U : Universe) (d : Disk) (t : Tid) (s : Stored)
    (h : cLoad U d t = some s) : cachedTaskMeta U d t = some (s.start, s.dur) := by
  unfold cLoad at h
  unfold cachedTaskMeta
  cases hk : kindOf U t <;> rw [hk] at h <;> simp at h
  all_goals
    obtain ⟨_, h⟩ := h
    cases he : lookup (keyOf U t) d with
    | none => simp [he] at h
    | some e =>
      simp only [he] at h
      split at h <;> simp at h
      simp [← h]

/-! ## non-vacuity -/
def exU : Universe :=
  { n := 4, ty := fun t => if t = 3 then 2 else if t = 2 then 1 else 0,
    cacheOf := fun T => if T = 0 then .pickle else if T = 1 then .other else .null,
    deps := fun t => if t = 2 then [0, 1] else if t = 3 then [2] else [], fails := fun t => t == 1,
    hash := fun t => t, value := fun t g vs => 1000 * t + g + vs.foldl (· + ·) 0,
    namePrefix := fun a b => a == b, nullStorage := false }

example : KeyInj exU ∧ (∀ T, exU.namePrefix T T = true) ∧ Wf exU [] := by
  refine ⟨?_, by simp [exU], wf_nil exU⟩
  intro t t' h
  simp [keyOf, exU] at h
  exact h.2.2

/-- a history with a failing task, a `cache=None` type, bust and uncache: outputs of the concrete
    model, step by step -/
example :
    (histC exU [] [.run false 1 [3] [], .isCached 0, .isCached 2, .isCached 3, .cachedTasks [0, 1, 2],
                  .run false 2 [0, 1] [], .run true 3 [0] [], .uncache [0, 3], .cachedTasks [0]]).2
    = [.ran [] [3, 2, 1, 0] [], .bool true, .bool false, .bool false, .tasks [0],
       .ran [(0, 1)] [1] [(0, { val := 1, start := 1, dur := 100 })], .ran [(0, 3)] [0] [],
       .unit, .tasks []] := by decide

/-- a cached task whose `bust_cache` re-execution fails (this run's context makes task 0 raise) keeps
    its entry: still reported cached, and the next plain run loads the OLD value with the OLD meta -/
example :
    (histC exU [] [.run false 1 [0] [], .run true 2 [0] [0], .isCached 0, .run false 3 [0] []]).2
    = [.ran [(0, 1)] [0] [], .ran [] [0] [], .bool true,
       .ran [(0, 1)] [] [(0, { val := 1, start := 1, dur := 100 })]] := by decide

example : runTask exU 2 [0] [] 0 = none ∧ runTask exU 2 [] [] 0 = some 2 := by decide

example : (histC { exU with nullStorage := true } [] [.run false 1 [0] [], .isCached 0]).2
    = [.ran [(0, 1)] [0] [], .bool false] := by decide

end Lt.Props.C08
