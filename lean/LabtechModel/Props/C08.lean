import LabtechModel.Proofs.StoreRefine
import LabtechModel.Proofs.LinkExample
import LabtechModel.Proofs.LinkDumps
/-!
# C08 — Cache contents evolve exactly as run / bust_cache / uncache dictate

`lab_refines_map`: for every operation history (any length) over `run_tasks`,
`run_tasks(bust_cache=True)`, `uncache_tasks`, `is_cached`, `cached_tasks`, from any well-formed disk
(in particular the empty one), the concrete storage (key directories written by `BaseCache.save`,
removed by `Storage.delete`, listed by `find_keys`) abstracts after every operation to the plain map
`Tid → Option Stored` that the specification computes, and every operation's output is the
specification's output (task listings compared as sets). The specification (`specRun`, `specUncache`,
`specCachedTasks` in `Model/Store.lean`) is then characterised directly: a run changes only entries of
tasks it executed (`run_changes_only_executed`), every changed entry is the fresh result of this run
(`run_changed_entries_are_fresh`), without `bust_cache` a cached task is never executed and keeps its
entry (`run_keeps_cached`), with `bust_cache` exactly the whole planned closure is executed
(`bust_executes_closure`), `uncache_tasks` removes exactly the named entries (`uncache_removes_exactly`),
and `cache=None` types / `storage=None` never persist anything (`null_inert`).

Hypotheses: `KeyInj U` (C07: distinct tasks, distinct keys), `∀ T, U.namePrefix T T` (a qualname is a
prefix of itself), `Wf U d` for the initial disk (every entry was written by `BaseCache.save`).

## Links to the other models (second half of this file; proofs in `Proofs/Link*.lean`)

**Discharged: "the history model runs the planned tasks dependencies-first (no formal link to `Lt.run`)".**
`labRun_agrees_with_scheduler`: translate the universe, the run stamp `g`, the failing set `fl` and the
request into a scheduler problem (`Lt.Link.toProblem`: one object per task, `children = deps`,
`behave` = the body of `runTask`) and the disk into a scheduler store (`Lt.Link.diskStore`); then for
EVERY backend, `max_workers ≥ 1`, positive per-type limits and EVERY fair schedule that is long enough
(`continue_on_failure`, as the history model's Lab), the final store of `Lt.run` read as a map
tid ↦ value is the value part of the disk `labRun` leaves, `run_tasks` returns `labRun`'s dict, `run()`
is executed for exactly `labRun`'s `execd` and a load happens for exactly its `loaded`.
`specRun_agrees_with_scheduler` is the same on the specification map (no `KeyInj`, no `Wf`),
`scheduler_plans_neededFrom` identifies the scheduler's plan with `neededFrom`. Consequences on the
scheduler: `scheduler_outcome_schedule_independent`, `scheduler_keeps_cached` (loaded tasks untouched),
`scheduler_bust_executes_closure`, `scheduler_failed_execution_keeps_entry`. The proof goes through
`Props.C10.store_after_run` / `unrelated_tasks_return_reference` (`refEvalF`) and the closed form
`Lt.Link.specRun_closed` of the history model's fold. Hypothesis `Lt.Link.UOK`: dependencies have
smaller tids (the `Universe` convention), requested tids are `< U.n`.
NOT linked (the scheduler model has no such data): the start/duration metadata of an entry, and the
order of `execd` (linked as sets).

**Discharged: the hypothesis `KeyInj`.** `lab_refines_map_params` / `labRun_agrees_with_scheduler_params`
replace it by `Lt.Link.Represents` (the universe's type/hash numbers stand for the class strings / sha1
digests of real parameter trees of `Model/Params.lean`), `WfTasks` (`wfValue` at every depth — F07's input
class stays excluded exactly as in C07), `Distinct`, and the two named assumptions of C07: `ShaInjOn`
(sha1 collision-free on the pre-images that occur) and `DumpsInjOn` (`json.dumps` separates the documents
that occur); `Lt.Link.keyInj_of_params` is the derivation (`C07.serTask_injective_partial`,
`classRef_injective`; `keyInj_of_params_via_cacheKey` goes literally through the real key string and
`C07.cacheKey_injective_partial`).
-/
namespace Lt.Props.C08
open Lt.Store

/-- **refinement**, by induction over the history (unbounded length) -/
theorem lab_refines_map (U : Universe) (hinj : KeyInj U) (hpre : ∀ T, U.namePrefix T T = true)
    (ops : List Op) (d : Disk) (wf : Wf U d) :
    abs U (histC U d ops).1 = (histA U (abs U d) ops).1 ∧
    outsSame (histC U d ops).2 (histA U (abs U d) ops).2 ∧
    Wf U (histC U d ops).1 := by
  induction ops generalizing d with
  | nil => exact ⟨rfl, trivial, wf⟩
  | cons op ops ih =>
    -- one operation
    have hop : abs U (opC U d op).1 = (opA U (abs U d) op).1 ∧ outSame (opC U d op).2 (opA U (abs U d) op).2 ∧
        Wf U (opC U d op).1 := by
      cases op with
      | run bust g req fl =>
        have r := run_refines U hinj bust g fl req d wf
        refine ⟨r.map, ?_, r.wf⟩
        simp only [opC, opA, outSame, returned, returnedA, r.vals, r.execd, r.loaded]
      | uncache ts =>
        have r := uncache_refines U hinj ts d wf
        exact ⟨r.2, rfl, r.1⟩
      | isCached t =>
        refine ⟨rfl, ?_, wf⟩
        simp only [opC, opA, outSame, labIsCached]
        rw [isCached_iff_load U d t wf hinj]; rfl
      | cachedTasks types =>
        exact ⟨rfl, fun t => cachedTasks_refines U hinj hpre types d wf t, wf⟩
    obtain ⟨h1, h2, h3⟩ := hop
    obtain ⟨i1, i2, i3⟩ := ih (opC U d op).1 h3
    simp only [histC, histA]
    rw [← h1]
    exact ⟨i1, ⟨h2, i2⟩, i3⟩

/-! ## what the specification says, operation by operation -/

/-- `uncache_tasks` removes exactly the named entries and nothing else (concrete statement) -/
theorem uncache_removes_exactly (U : Universe) (hinj : KeyInj U) (ts : List Tid) (d : Disk) (wf : Wf U d) (t : Tid) :
    cLoad U (labUncache U d ts) t = if ts.contains t then none else cLoad U d t := by
  have := congrFun (uncache_refines U hinj ts d wf).2 t
  simpa [abs, specUncache] using this

/-- the three things one planned task can do -/
theorem stepA_cases (U : Universe) (bust : Bool) (g : Nat) (fl : List Tid) (a : AAcc) (t : Tid) :
    (∃ s, stepA U bust g fl a t = { a with vals := (t, some s.val) :: a.vals, loaded := (t, s) :: a.loaded }) ∨
    (∃ v, stepA U bust g fl a t =
      { a with map := if persists U t then aUpdate a.map t { val := v, start := metaStart g t, dur := metaDur g t }
                      else a.map,
               vals := (t, some v) :: a.vals, execd := t :: a.execd }) ∨
    (stepA U bust g fl a t = { a with vals := (t, none) :: a.vals, execd := t :: a.execd }) := by
  unfold stepA
  split
  · next s _ => exact Or.inl ⟨s, rfl⟩
  · split
    · next v _ => exact Or.inr (Or.inl ⟨v, rfl⟩)
    · exact Or.inr (Or.inr rfl)

/-- fold invariant of a specification run -/
theorem spec_fold_inv (U : Universe) (bust : Bool) (g : Nat) (fl : List Tid) (m0 : AMap) (l : List Tid) (a : AAcc)
    (h1 : ∀ x, x ∉ a.execd → a.map x = m0 x)
    (h2 : ∀ x, a.map x ≠ m0 x → x ∈ a.execd ∧ persists U x = true ∧
      ∃ v, a.map x = some { val := v, start := metaStart g x, dur := metaDur g x }) :
    (∀ x, x ∉ (l.foldl (stepA U bust g fl) a).execd → (l.foldl (stepA U bust g fl) a).map x = m0 x) ∧
    (∀ x, (l.foldl (stepA U bust g fl) a).map x ≠ m0 x → x ∈ (l.foldl (stepA U bust g fl) a).execd ∧ persists U x = true ∧
      ∃ v, (l.foldl (stepA U bust g fl) a).map x = some { val := v, start := metaStart g x, dur := metaDur g x }) := by
  induction l generalizing a with
  | nil => exact ⟨h1, h2⟩
  | cons t ts ih =>
    simp only [List.foldl]
    rcases stepA_cases U bust g fl a t with ⟨s, hs⟩ | ⟨v, hv⟩ | hn
    · rw [hs]; exact ih _ h1 h2
    · rw [hv]
      apply ih
      · intro x hx
        simp only [List.mem_cons, not_or] at hx
        simp only
        split
        · simp [aUpdate, hx.1, h1 x hx.2]
        · exact h1 x hx.2
      · intro x hx
        simp only at hx ⊢
        by_cases hp : persists U t = true
        · simp only [hp, if_true] at hx ⊢
          by_cases hxt : x = t
          · subst hxt; exact ⟨List.mem_cons_self .., hp, v, by simp [aUpdate]⟩
          · simp only [aUpdate, hxt, if_false] at hx ⊢
            have := h2 x hx
            exact ⟨List.mem_cons_of_mem _ this.1, this.2⟩
        · simp only [hp, if_false] at hx ⊢
          have := h2 x hx
          exact ⟨List.mem_cons_of_mem _ this.1, this.2⟩
    · rw [hn]
      apply ih
      · intro x hx
        simp only [List.mem_cons, not_or] at hx
        exact h1 x hx.2
      · intro x hx
        have := h2 x hx
        exact ⟨List.mem_cons_of_mem _ this.1, this.2⟩

/-- a run leaves every entry of a task it did not execute exactly as it was -/
theorem run_changes_only_executed (U : Universe) (bust : Bool) (g : Nat) (fl : List Tid) (req : List Tid) (m : AMap) (x : Tid)
    (h : x ∉ (specRun U bust g fl req m).execd) : (specRun U bust g fl req m).map x = m x :=
  (spec_fold_inv U bust g fl m _ { map := m } (fun _ _ => rfl) (fun _ hx => absurd rfl hx)).1 x h

/-- every entry a run adds or replaces belongs to a task this run executed, whose type caches and
    whose Lab has a storage, and holds this run's fresh result and meta -/
theorem run_changed_entries_are_fresh (U : Universe) (bust : Bool) (g : Nat) (fl : List Tid) (req : List Tid) (m : AMap) (x : Tid)
    (h : (specRun U bust g fl req m).map x ≠ m x) :
    x ∈ (specRun U bust g fl req m).execd ∧ persists U x = true ∧
    ∃ v, (specRun U bust g fl req m).map x = some { val := v, start := metaStart g x, dur := metaDur g x } :=
  (spec_fold_inv U bust g fl m _ { map := m } (fun _ _ => rfl) (fun _ hx => absurd rfl hx)).2 x h

/-- without `bust_cache` a task that is cached is never executed, and its entry stays -/
theorem run_keeps_cached (U : Universe) (g : Nat) (fl : List Tid) (req : List Tid) (m : AMap) (x : Tid) (hx : (m x).isSome = true) :
    x ∉ (specRun U false g fl req m).execd ∧ (specRun U false g fl req m).map x = m x := by
  simp only [specRun]
  generalize neededFrom U _ req = l
  have : ∀ (a : AAcc), x ∉ a.execd → a.map x = m x →
      x ∉ (l.foldl (stepA U false g fl) a).execd ∧ (l.foldl (stepA U false g fl) a).map x = m x := by
    induction l with
    | nil => intro a h1 h2; exact ⟨h1, h2⟩
    | cons t ts ih =>
      intro a h1 h2
      simp only [List.foldl]
      apply ih
      · unfold stepA
        by_cases hxt : t = x
        · subst hxt
          obtain ⟨s, hs⟩ := Option.isSome_iff_exists.mp hx
          simp [h2, hs, h1]
        · split
          · exact h1
          · split <;> simp [h1, Ne.symm hxt]
      · unfold stepA
        by_cases hxt : t = x
        · subst hxt
          obtain ⟨s, hs⟩ := Option.isSome_iff_exists.mp hx
          simp [h2, hs]
        · split
          · exact h2
          · split
            · simp only; split
              · simp [aUpdate, Ne.symm hxt, h2]
              · exact h2
            · exact h2
  exact this { map := m } (by simp) rfl

/-- with `bust_cache` nothing is loaded: the whole planned closure of the request is executed,
    dependencies first -/
theorem bust_executes_closure (U : Universe) (g : Nat) (fl : List Tid) (req : List Tid) (m : AMap) :
    (specRun U true g fl req m).execd = (neededFrom U (fun _ => false) req).reverse ∧
    (specRun U true g fl req m).loaded = [] := by
  simp only [specRun, Bool.not_true, Bool.false_and]
  generalize neededFrom U (fun _ => false) req = l
  have : ∀ (a : AAcc), (l.foldl (stepA U true g fl) a).execd = l.reverse ++ a.execd ∧
      (l.foldl (stepA U true g fl) a).loaded = a.loaded := by
    induction l with
    | nil => intro a; simp
    | cons t ts ih =>
      intro a
      simp only [List.foldl]
      obtain ⟨i1, i2⟩ := ih (stepA U true g fl a t)
      rw [i1, i2]
      unfold stepA
      simp only [if_true]
      split <;> simp
  simpa using this { map := m }

/-- `cache=None` types and `storage=None` Labs: no operation ever changes the disk, nothing is ever
    reported cached, nothing is listed -/
theorem null_inert (U : Universe) (h : U.nullStorage = true ∨ ∀ T, U.cacheOf T = .null) (ops : List Op) (d : Disk) :
    (histC U d ops).1 = d ∧ (∀ t, labIsCached U d t = false) ∧ (∀ t s, cLoad U d t ≠ some s) := by
  have hsave : ∀ d t r, cSave U d t r = d := by
    intro d t r; unfold cSave sPut
    rcases h with h | h
    · split <;> simp [h]
    · simp [kindOf, h]
  have hdel : ∀ d t, cDelete U d t = d := by
    intro d t; unfold cDelete sDelete
    rcases h with h | h
    · split <;> simp [h]
    · simp [kindOf, h]
  have hic : ∀ d t, labIsCached U d t = false := by
    intro d t; unfold labIsCached cIsCached sExists
    rcases h with h | h
    · split <;> simp [h]
    · simp [kindOf, h]
  have hload : ∀ d t s, cLoad U d t ≠ some s := by
    intro d t s; unfold cLoad
    rcases h with h | h
    · split <;> simp [h]
    · simp [kindOf, h]
  have hunc : ∀ ts d, labUncache U d ts = d := by
    intro ts
    induction ts with
    | nil => intro d; rfl
    | cons t ts ih3 => intro d; simp only [labUncache, hdel, ite_self]; exact ih3 d
  have hrun : ∀ bust g fl (l : List Tid) (a : Acc), (l.foldl (stepC U bust g fl) a).disk = a.disk := by
    intro bust g fl l
    induction l with
    | nil => intro a; rfl
    | cons t ts ih2 =>
      intro a; simp only [List.foldl]; rw [ih2]
      unfold stepC
      split
      · split <;> rfl
      · split
        · simp [hsave]
        · rfl
  have hdisk : ∀ ops d, (histC U d ops).1 = d := by
    intro ops
    induction ops with
    | nil => intro d; rfl
    | cons op ops ih =>
      intro d
      have hop : (opC U d op).1 = d := by
        cases op with
        | run bust g req fl => simp only [opC, labRun]; exact hrun _ _ _ _ _
        | uncache ts => simp only [opC]; exact hunc ts d
        | isCached t => rfl
        | cachedTasks types => rfl
      simp only [histC]
      rw [hop]
      exact ih d
  exact ⟨hdisk ops d, hic d, hload d⟩

/-- **a failed execution changes nothing**: whenever `run()` of a planned task fails in this run
    (it raises — always, or because this run's context says so — or a dependency result is missing),
    the step leaves the disk exactly as it was; in particular a valid entry of an earlier successful
    execution survives a failed `bust_cache` re-execution -/
theorem failed_execution_changes_nothing (U : Universe) (bust : Bool) (g : Nat) (fl : List Tid) (a : Acc) (t : Tid)
    (h : runTask U g fl a.vals t = none) : (stepC U bust g fl a t).disk = a.disk := by
  unfold stepC
  split
  · split <;> rfl
  · rw [h]

/-- … and on the specification: the entry of a task whose execution in this run failed is the
    entry it had before the run (the run's `vals` records the failure as `none`) -/
theorem run_failed_keeps_entry (U : Universe) (bust : Bool) (g : Nat) (fl : List Tid) (req : List Tid) (m : AMap) (x : Tid)
    (h : (specRun U bust g fl req m).map x ≠ m x) :
    ∃ v, (specRun U bust g fl req m).map x = some { val := v, start := metaStart g x, dur := metaDur g x } :=
  (run_changed_entries_are_fresh U bust g fl req m x h).2.2

/-- what `cached_tasks` attaches to a listed task as `result_meta` is the start/duration stored in
    that task's own entry, i.e. the meta a load of the task returns -/
theorem cached_task_meta_is_stored_meta (U : Universe) (d : Disk) (t : Tid) (s : Stored)
    (h : cLoad U d t = some s) : cachedTaskMeta U d t = some (s.start, s.dur) := by
  unfold cLoad at h
  unfold cachedTaskMeta
  cases hk : kindOf U t <;> rw [hk] at h <;> simp at h
  all_goals
    obtain ⟨_, h⟩ := h
    cases he : Lt.Store.lookup (keyOf U t) d with
    | none => simp [he] at h
    | some e =>
      simp only [he] at h
      split at h <;> simp at h
      simp [← h]

/-! ## non-vacuity -/
def exU : Universe :=
  { n := 4, ty := fun t => if t = 3 then 2 else if t = 2 then 1 else 0,
    cacheOf := fun T => if T = 0 then .pickle else if T = 1 then .other else .null,
    deps := fun t => if t = 2 then [0, 1] else if t = 3 then [2] else [], fails := fun t => t == 1,
    hash := fun t => t, value := fun t g vs => 1000 * t + g + vs.foldl (· + ·) 0,
    namePrefix := fun a b => a == b, nullStorage := false }

example : KeyInj exU ∧ (∀ T, exU.namePrefix T T = true) ∧ Wf exU [] := by
  refine ⟨?_, by simp [exU], wf_nil exU⟩
  intro t t' h
  simp [keyOf, exU] at h
  exact h.2.2

/-- a history with a failing task, a `cache=None` type, bust and uncache: outputs of the concrete
    model, step by step -/
example :
    (histC exU [] [.run false 1 [3] [], .isCached 0, .isCached 2, .isCached 3, .cachedTasks [0, 1, 2],
                  .run false 2 [0, 1] [], .run true 3 [0] [], .uncache [0, 3], .cachedTasks [0]]).2
    = [.ran [] [3, 2, 1, 0] [], .bool true, .bool false, .bool false, .tasks [0],
       .ran [(0, 1)] [1] [(0, { val := 1, start := 1, dur := 100 })], .ran [(0, 3)] [0] [],
       .unit, .tasks []] := by decide

/-- a cached task whose `bust_cache` re-execution fails (this run's context makes task 0 raise) keeps
    its entry: still reported cached, and the next plain run loads the OLD value with the OLD meta -/
example :
    (histC exU [] [.run false 1 [0] [], .run true 2 [0] [0], .isCached 0, .run false 3 [0] []]).2
    = [.ran [(0, 1)] [0] [], .ran [] [0] [], .bool true,
       .ran [(0, 1)] [] [(0, { val := 1, start := 1, dur := 100 })]] := by decide

example : runTask exU 2 [0] [] 0 = none ∧ runTask exU 2 [] [] 0 = some 2 := by decide

example : (histC { exU with nullStorage := true } [] [.run false 1 [0] [], .isCached 0]).2
    = [.ran [(0, 1)] [0] [], .bool false] := by decide


/-! ## link to the scheduler model (`Model/Run.lean`): `labRun` summarises every schedule

`Lt.Link.toProblem U mp g fl req` reads the universe as a scheduler problem (one object per task,
`children = deps`, `behave` = the body of `runTask`); `Lt.Link.diskStore U d` is the scheduler store
holding the value every task of the universe loads from `d`; `Lt.Link.UOK` says that dependencies
have smaller tids and the request names tasks of the universe. -/

/-- **the dependency-first `labRun` is what the scheduler computes, whatever the schedule**: for every
    backend, `max_workers ≥ 1`, positive per-type limits, every fair schedule that is long enough, the
    final store of `Lt.run`, read as a map tid ↦ value, is the value part of the disk `labRun`
    leaves; `run_tasks` returns `labRun`'s result; `run()` is executed for exactly `labRun`'s `execd`
    and a load happens for exactly its `loaded`. (Not linked: start/duration metadata, which the
    scheduler model does not carry, and the order of `execd`.) -/
theorem labRun_agrees_with_scheduler (U : Universe) (hinj : KeyInj U)
    (mp : Nat → Option Nat) (g : Nat) (fl req : List Nat) (hU : Lt.Link.UOK U req)
    (d : Disk) (wf : Wf U d)
    (cfg : Lt.Config) (hcf : cfg.contOnFail = true) (fuel : Nat) (hF : ∀ t ∈ req, t < fuel)
    (hL : 0 < cfg.maxWorkers ∧ ∀ T L, mp T = some L → 0 < L)
    (sched : List Lt.Choice) (hfair : Lt.Fair sched)
    (hlen : (neededFrom U (fun t => !cfg.bust && labIsCached U d t) req).length + 1 ≤ sched.length) :
    (∀ t, Lt.lookup t (Lt.run cfg (Lt.Link.toProblem U mp g fl req) (Lt.Link.diskStore U d) fuel sched).store =
      (cLoad U (labRun U cfg.bust g fl req d).disk t).map (fun s => s.val)) ∧
    (Lt.run cfg (Lt.Link.toProblem U mp g fl req) (Lt.Link.diskStore U d) fuel sched).status =
      .returned (returned (Lt.dedup req) (labRun U cfg.bust g fl req d)) ∧
    (∀ t, (∃ seen, Lt.Ev.exec t seen ∈ (Lt.run cfg (Lt.Link.toProblem U mp g fl req) (Lt.Link.diskStore U d) fuel sched).trace) ↔
      t ∈ (labRun U cfg.bust g fl req d).execd) ∧
    (∀ t, Lt.Ev.load t ∈ (Lt.run cfg (Lt.Link.toProblem U mp g fl req) (Lt.Link.diskStore U d) fuel sched).trace ↔
      t ∈ (labRun U cfg.bust g fl req d).loaded.map Prod.fst) :=
  Lt.Link.labRun_agrees_with_scheduler_disk U hinj mp g fl req hU d wf cfg hcf fuel hF hL sched hfair hlen

/-- the same on the specification map, without `KeyInj` / `Wf`: any map `m` whose entries belong to
    persisting tasks, any scheduler store `st` holding the values of `m` -/
theorem specRun_agrees_with_scheduler (U : Universe) (mp : Nat → Option Nat) (g : Nat) (fl req : List Nat)
    (hU : Lt.Link.UOK U req) (cfg : Lt.Config) (m : AMap) (st : Lt.Store)
    (hrel : Lt.Link.StoreRel m st) (hmap : Lt.Link.MapOK U m) (fuel : Nat)
    (hcf : cfg.contOnFail = true) (hF : ∀ t ∈ req, t < fuel)
    (hL : 0 < cfg.maxWorkers ∧ ∀ T L, mp T = some L → 0 < L)
    (sched : List Lt.Choice) (hfair : Lt.Fair sched)
    (hlen : (neededFrom U (fun t => !cfg.bust && (m t).isSome) req).length + 1 ≤ sched.length) :
    (∀ t, Lt.lookup t (Lt.run cfg (Lt.Link.toProblem U mp g fl req) st fuel sched).store =
      ((specRun U cfg.bust g fl req m).map t).map (fun s => s.val)) ∧
    (Lt.run cfg (Lt.Link.toProblem U mp g fl req) st fuel sched).status =
      .returned (returnedA (Lt.dedup req) (specRun U cfg.bust g fl req m)) ∧
    (∀ t, (∃ seen, Lt.Ev.exec t seen ∈ (Lt.run cfg (Lt.Link.toProblem U mp g fl req) st fuel sched).trace) ↔
      t ∈ (specRun U cfg.bust g fl req m).execd) ∧
    (∀ t, Lt.Ev.load t ∈ (Lt.run cfg (Lt.Link.toProblem U mp g fl req) st fuel sched).trace ↔
      t ∈ (specRun U cfg.bust g fl req m).loaded.map Prod.fst) :=
  Lt.Link.specRun_agrees_with_scheduler U mp g fl req hU cfg m st hrel hmap fuel hcf hF hL sched hfair hlen

/-- the scheduler plans exactly the tasks `neededFrom` lists (the closure of the request through
    not-cached tasks) -/
theorem scheduler_plans_neededFrom (U : Universe) (mp : Nat → Option Nat) (g : Nat) (fl req : List Nat)
    (hU : Lt.Link.UOK U req) (cfg : Lt.Config) (m : AMap) (st : Lt.Store)
    (hrel : Lt.Link.StoreRel m st) (hmap : Lt.Link.MapOK U m) (fuel : Nat) (hF : ∀ t ∈ req, t < fuel) (t : Nat) :
    t ∈ (Lt.plan cfg (Lt.Link.toProblem U mp g fl req) st fuel).pending ↔
      t ∈ neededFrom U (fun t => !cfg.bust && (m t).isSome) req :=
  Lt.Link.planned_iff U mp g fl req hU cfg m st hrel hmap fuel hF t

/-- two runs of the same request from the same disk — any two backends, worker counts, per-type
    limits, fair schedules — leave the same store map and return the same dict -/
theorem scheduler_outcome_schedule_independent (U : Universe) (hinj : KeyInj U)
    (mp mp' : Nat → Option Nat) (g : Nat) (fl req : List Nat) (hU : Lt.Link.UOK U req)
    (d : Disk) (wf : Wf U d)
    (cfg cfg' : Lt.Config) (hb : cfg'.bust = cfg.bust) (hcf : cfg.contOnFail = true) (hcf' : cfg'.contOnFail = true)
    (fuel : Nat) (hF : ∀ t ∈ req, t < fuel)
    (hL : 0 < cfg.maxWorkers ∧ ∀ T L, mp T = some L → 0 < L)
    (hL' : 0 < cfg'.maxWorkers ∧ ∀ T L, mp' T = some L → 0 < L)
    (sched sched' : List Lt.Choice) (hfair : Lt.Fair sched) (hfair' : Lt.Fair sched')
    (hlen : (neededFrom U (fun t => !cfg.bust && labIsCached U d t) req).length + 1 ≤ sched.length)
    (hlen' : (neededFrom U (fun t => !cfg.bust && labIsCached U d t) req).length + 1 ≤ sched'.length) :
    (∀ t, Lt.lookup t (Lt.run cfg (Lt.Link.toProblem U mp g fl req) (Lt.Link.diskStore U d) fuel sched).store =
          Lt.lookup t (Lt.run cfg' (Lt.Link.toProblem U mp' g fl req) (Lt.Link.diskStore U d) fuel sched').store) ∧
    (Lt.run cfg (Lt.Link.toProblem U mp g fl req) (Lt.Link.diskStore U d) fuel sched).status =
      (Lt.run cfg' (Lt.Link.toProblem U mp' g fl req) (Lt.Link.diskStore U d) fuel sched').status := by
  have h1 := labRun_agrees_with_scheduler U hinj mp g fl req hU d wf cfg hcf fuel hF hL sched hfair hlen
  have h2 := labRun_agrees_with_scheduler U hinj mp' g fl req hU d wf cfg' hcf' fuel hF hL' sched' hfair'
    (by rw [hb]; exact hlen')
  rw [hb] at h2
  exact ⟨fun t => by rw [h1.1 t, h2.1 t], by rw [h1.2.1, h2.2.1]⟩

/-- **loaded tasks are untouched, on the scheduler**: without `bust_cache`, a task that is cached
    beforehand is never executed by any schedule and its store entry stays -/
theorem scheduler_keeps_cached (U : Universe) (hinj : KeyInj U)
    (mp : Nat → Option Nat) (g : Nat) (fl req : List Nat) (hU : Lt.Link.UOK U req)
    (d : Disk) (wf : Wf U d)
    (cfg : Lt.Config) (hb : cfg.bust = false) (hcf : cfg.contOnFail = true) (fuel : Nat) (hF : ∀ t ∈ req, t < fuel)
    (hL : 0 < cfg.maxWorkers ∧ ∀ T L, mp T = some L → 0 < L)
    (sched : List Lt.Choice) (hfair : Lt.Fair sched)
    (hlen : (neededFrom U (fun t => !cfg.bust && labIsCached U d t) req).length + 1 ≤ sched.length)
    (x : Nat) (hx : labIsCached U d x = true) :
    (∀ seen, Lt.Ev.exec x seen ∉ (Lt.run cfg (Lt.Link.toProblem U mp g fl req) (Lt.Link.diskStore U d) fuel sched).trace) ∧
    Lt.lookup x (Lt.run cfg (Lt.Link.toProblem U mp g fl req) (Lt.Link.diskStore U d) fuel sched).store =
      Lt.lookup x (Lt.Link.diskStore U d) := by
  obtain ⟨h1, _, h3, _⟩ := labRun_agrees_with_scheduler U hinj mp g fl req hU d wf cfg hcf fuel hF hL sched hfair hlen
  have r := run_refines U hinj cfg.bust g fl req d wf
  have hsome : (abs U d x).isSome = true := by
    unfold labIsCached at hx; rw [isCached_iff_load U d x wf hinj] at hx; exact hx
  have hk := run_keeps_cached U g fl req (abs U d) x hsome
  rw [← hb] at hk
  refine ⟨fun seen hs => ?_, ?_⟩
  · have := (h3 x).mp ⟨seen, hs⟩
    rw [r.execd] at this
    exact hk.1 this
  · rw [h1 x, Lt.Link.diskStore_rel U hinj d wf x]
    have : cLoad U (labRun U cfg.bust g fl req d).disk x = (specRun U cfg.bust g fl req (abs U d)).map x := by
      rw [← r.map]; rfl
    rw [this, hk.2]

/-- **`bust_cache` re-executes the closure, on the scheduler**: every schedule executes exactly the
    whole planned closure of the request and loads nothing -/
theorem scheduler_bust_executes_closure (U : Universe) (hinj : KeyInj U)
    (mp : Nat → Option Nat) (g : Nat) (fl req : List Nat) (hU : Lt.Link.UOK U req)
    (d : Disk) (wf : Wf U d)
    (cfg : Lt.Config) (hb : cfg.bust = true) (hcf : cfg.contOnFail = true) (fuel : Nat) (hF : ∀ t ∈ req, t < fuel)
    (hL : 0 < cfg.maxWorkers ∧ ∀ T L, mp T = some L → 0 < L)
    (sched : List Lt.Choice) (hfair : Lt.Fair sched)
    (hlen : (neededFrom U (fun t => !cfg.bust && labIsCached U d t) req).length + 1 ≤ sched.length) :
    (∀ t, (∃ seen, Lt.Ev.exec t seen ∈ (Lt.run cfg (Lt.Link.toProblem U mp g fl req) (Lt.Link.diskStore U d) fuel sched).trace) ↔
      t ∈ neededFrom U (fun _ => false) req) ∧
    (∀ t, Lt.Ev.load t ∉ (Lt.run cfg (Lt.Link.toProblem U mp g fl req) (Lt.Link.diskStore U d) fuel sched).trace) := by
  obtain ⟨_, _, h3, h4⟩ := labRun_agrees_with_scheduler U hinj mp g fl req hU d wf cfg hcf fuel hF hL sched hfair hlen
  have r := run_refines U hinj cfg.bust g fl req d wf
  have hbe := bust_executes_closure U g fl req (abs U d)
  rw [← hb] at hbe
  refine ⟨fun t => ?_, fun t ht => ?_⟩
  · rw [h3 t, r.execd, hbe.1, List.mem_reverse]
  · have := (h4 t).mp ht
    rw [r.loaded, hbe.2] at this
    simp at this

/-- **a failed execution changes nothing, on the scheduler**: a task that has no result in this run
    (its `run()` raised, a dependency result was unavailable, or it is outside the plan) has, after
    any schedule, the store entry it had before -/
theorem scheduler_failed_execution_keeps_entry (U : Universe) (hinj : KeyInj U)
    (mp : Nat → Option Nat) (g : Nat) (fl req : List Nat) (hU : Lt.Link.UOK U req)
    (d : Disk) (wf : Wf U d)
    (cfg : Lt.Config) (hcf : cfg.contOnFail = true) (fuel : Nat) (hF : ∀ t ∈ req, t < fuel)
    (hL : 0 < cfg.maxWorkers ∧ ∀ T L, mp T = some L → 0 < L)
    (sched : List Lt.Choice) (hfair : Lt.Fair sched)
    (hlen : (neededFrom U (fun t => !cfg.bust && labIsCached U d t) req).length + 1 ≤ sched.length)
    (x : Nat) (hx : ∀ v, lookupV x (labRun U cfg.bust g fl req d).vals ≠ some (some v)) :
    Lt.lookup x (Lt.run cfg (Lt.Link.toProblem U mp g fl req) (Lt.Link.diskStore U d) fuel sched).store =
      Lt.lookup x (Lt.Link.diskStore U d) := by
  obtain ⟨h1, _, _, _⟩ := labRun_agrees_with_scheduler U hinj mp g fl req hU d wf cfg hcf fuel hF hL sched hfair hlen
  have r := run_refines U hinj cfg.bust g fl req d wf
  rw [r.vals] at hx
  have hk := Lt.Link.specRun_no_result_keeps_entry U g fl req hU cfg (abs U d) (Lt.Link.diskStore U d)
    (Lt.Link.diskStore_rel U hinj d wf) (Lt.Link.abs_mapOK U d) x hx
  rw [h1 x, Lt.Link.diskStore_rel U hinj d wf x]
  have : cLoad U (labRun U cfg.bust g fl req d).disk x = (specRun U cfg.bust g fl req (abs U d)).map x := by
    rw [← r.map]; rfl
  rw [this, hk]

/-! ## `KeyInj` discharged from the params model (C07)

`Lt.Link.Represents U sha1 task`: the universe's type / hash numbers stand for the class strings /
sha1 digests of the parameter trees `task t`; `WfTasks`: every tree is well-formed (`wfValue` at every
depth — F07's input class stays excluded, as in C07); `Distinct`: tids name distinct tasks; and the
two named assumptions of C07, `ShaInjOn` (sha1 collision-free on the pre-images that occur) and
`DumpsInjOn` (`json.dumps` separates the documents that occur). -/

/-- `lab_refines_map` with `KeyInj` replaced by the C07 assumptions -/
theorem lab_refines_map_params (U : Universe) (sha1 : String → String) (task : Nat → Lt.Params.Task)
    (hrep : Lt.Link.Represents U sha1 task) (hwf : Lt.Link.WfTasks U.n task) (hdist : Lt.Link.Distinct U.n task)
    (hsha : Lt.Link.ShaInjOn sha1 U.n task) (hdumps : Lt.Link.DumpsInjOn U.n task)
    (hpre : ∀ T, U.namePrefix T T = true) (ops : List Op) (d : Disk) (wf : Wf U d) :
    abs U (histC U d ops).1 = (histA U (abs U d) ops).1 ∧
    outsSame (histC U d ops).2 (histA U (abs U d) ops).2 ∧
    Wf U (histC U d ops).1 :=
  lab_refines_map U (Lt.Link.keyInj_of_params U sha1 task hrep hwf hdist hsha hdumps) hpre ops d wf

/-- `labRun_agrees_with_scheduler` with `KeyInj` replaced by the C07 assumptions: the three
    separately validated models composed -/
theorem labRun_agrees_with_scheduler_params (U : Universe) (sha1 : String → String) (task : Nat → Lt.Params.Task)
    (hrep : Lt.Link.Represents U sha1 task) (hwf : Lt.Link.WfTasks U.n task) (hdist : Lt.Link.Distinct U.n task)
    (hsha : Lt.Link.ShaInjOn sha1 U.n task) (hdumps : Lt.Link.DumpsInjOn U.n task)
    (mp : Nat → Option Nat) (g : Nat) (fl req : List Nat) (hU : Lt.Link.UOK U req)
    (d : Disk) (wf : Wf U d)
    (cfg : Lt.Config) (hcf : cfg.contOnFail = true) (fuel : Nat) (hF : ∀ t ∈ req, t < fuel)
    (hL : 0 < cfg.maxWorkers ∧ ∀ T L, mp T = some L → 0 < L)
    (sched : List Lt.Choice) (hfair : Lt.Fair sched)
    (hlen : (neededFrom U (fun t => !cfg.bust && labIsCached U d t) req).length + 1 ≤ sched.length) :
    (∀ t, Lt.lookup t (Lt.run cfg (Lt.Link.toProblem U mp g fl req) (Lt.Link.diskStore U d) fuel sched).store =
      (cLoad U (labRun U cfg.bust g fl req d).disk t).map (fun s => s.val)) ∧
    (Lt.run cfg (Lt.Link.toProblem U mp g fl req) (Lt.Link.diskStore U d) fuel sched).status =
      .returned (returned (Lt.dedup req) (labRun U cfg.bust g fl req d)) :=
  let h := labRun_agrees_with_scheduler U (Lt.Link.keyInj_of_params U sha1 task hrep hwf hdist hsha hdumps)
    mp g fl req hU d wf cfg hcf fuel hF hL sched hfair hlen
  ⟨h.1, h.2.1⟩

/-! ## non-vacuity of the links: the universe `Lt.Link.exPU` (three tasks with real parameter trees,
    `2 = Box(a=Leaf, b=Raw)` depends on `0 = Leaf` and `1 = Raw`, `Raw` has `cache=None`) -/

/-- all hypotheses of the two links hold together on `exPU` (its `KeyInj` comes from the params model) -/
example : KeyInj Lt.Link.exPU ∧ Lt.Link.UOK Lt.Link.exPU [2] ∧ Wf Lt.Link.exPU [] ∧
    Lt.Link.Represents Lt.Link.exPU Lt.Link.exSha Lt.Link.exTask ∧ Lt.Link.WfTasks 3 Lt.Link.exTask ∧
    Lt.Link.ShaInjOn Lt.Link.exSha 3 Lt.Link.exTask ∧ Lt.Link.DumpsInjOn 3 Lt.Link.exTask :=
  ⟨Lt.Link.exPU_keyInj, Lt.Link.exPU_uok [2] (by decide), wf_nil _, Lt.Link.exPU_represents,
   Lt.Link.exTask_wf, Lt.Link.exSha_injOn, Lt.Link.exTask_dumpsInj⟩

/-- the link theorem instantiated: for EVERY backend, with one worker and a per-type limit of 1, the
    slowest fair schedule returns what `labRun` returns -/
example (be : Lt.Backend) :
    (Lt.run { backend := be, maxWorkers := 1, contOnFail := true, bust := false }
      (Lt.Link.toProblem Lt.Link.exPU (fun _ => some 1) 1 [] [2]) (Lt.Link.diskStore Lt.Link.exPU []) 3
      (List.replicate 4 Lt.chooseFirst)).status =
    .returned (returned (Lt.dedup [2]) (labRun Lt.Link.exPU false 1 [] [2] [])) :=
  (labRun_agrees_with_scheduler Lt.Link.exPU Lt.Link.exPU_keyInj (fun _ => some 1) 1 [] [2]
    (Lt.Link.exPU_uok [2] (by decide)) [] (wf_nil _)
    { backend := be, maxWorkers := 1, contOnFail := true, bust := false } rfl 3 (by decide)
    ⟨Nat.zero_lt_one, fun T L h => by simp at h; omega⟩ _ (Lt.fair_replicate 4 Lt.chooseFirst rfl)
    (by
      show (neededFrom Lt.Link.exPU (fun t => !false && labIsCached Lt.Link.exPU [] t) [2]).length + 1
        ≤ (List.replicate 4 Lt.chooseFirst).length
      decide)).2.1

set_option maxRecDepth 100000 in
/-- concretely (`decide`): a cold run, then a `bust_cache` run in which task 0 raises, then a plain
    run that loads — scheduler (fork, 2 workers / serial) and `labRun` side by side: same store map,
    same returned dict, same executed and loaded sets -/
example :
    let a1 := labRun Lt.Link.exPU false 1 [] [2] []
    let r1 := Lt.run { backend := .fork, maxWorkers := 2, contOnFail := true, bust := false }
      (Lt.Link.toProblem Lt.Link.exPU (fun _ => none) 1 [] [2]) (Lt.Link.diskStore Lt.Link.exPU []) 3
      (List.replicate 4 Lt.chooseAll)
    let a2 := labRun Lt.Link.exPU true 2 [0] [2] a1.disk
    let r2 := Lt.run { backend := .serial, maxWorkers := 2, contOnFail := true, bust := true }
      (Lt.Link.toProblem Lt.Link.exPU (fun _ => none) 2 [0] [2]) (Lt.Link.diskStore Lt.Link.exPU a1.disk) 3
      (List.replicate 4 Lt.chooseAll)
    let a3 := labRun Lt.Link.exPU false 3 [] [2, 1] a1.disk
    let r3 := Lt.run { backend := .spawn, maxWorkers := 2, contOnFail := true, bust := false }
      (Lt.Link.toProblem Lt.Link.exPU (fun _ => none) 3 [] [2, 1]) (Lt.Link.diskStore Lt.Link.exPU a1.disk) 3
      (List.replicate 4 Lt.chooseAll)
    Lt.Link.diskStore Lt.Link.exPU a1.disk = [(0, 1), (2, 3003)] ∧
    [0, 1, 2].map (fun t => Lt.lookup t r1.store) = [some 1, none, some 3003] ∧
    [0, 1, 2].map (fun t => (cLoad Lt.Link.exPU a1.disk t).map (fun s => s.val)) = [some 1, none, some 3003] ∧
    r1.status = .returned (returned [2] a1) ∧ a1.execd = [2, 1, 0] ∧ Lt.ranOf r1.trace = [0, 1, 2] ∧
    [0, 1, 2].map (fun t => Lt.lookup t r2.store) = [some 1, none, some 3003] ∧
    [0, 1, 2].map (fun t => (cLoad Lt.Link.exPU a2.disk t).map (fun s => s.val)) = [some 1, none, some 3003] ∧
    r2.status = .returned (returned [2] a2) ∧ returned [2] a2 = [] ∧ a2.execd = [2, 1, 0] ∧
    r3.status = .returned (returned [2, 1] a3) ∧ returned [2, 1] a3 = [(2, 3003), (1, 1003)] ∧
    a3.execd = [1] ∧ a3.loaded.map Prod.fst = [2] ∧ Lt.ranOf r3.trace = [2, 1] ∧ Lt.Ev.load 2 ∈ r3.trace := by
  decide

end Lt.Props.C08

/-! ## the `json.dumps` assumption proved

`DumpsInjOn` is now a theorem (`Lt.Link.dumpsInjOn_of_wfFloats`, from `Lt.Params.dumps_injective`,
`Proofs/DumpsInj.lean`) for every family of tasks whose float parameters carry float tokens
(`Lt.Link.WfFloatsOn`, decidable per task).  `ShaInjOn` is the one named assumption that remains. -/
namespace Lt.Props.C08
open Lt.Store

/-- `lab_refines_map_params` without the `json.dumps` assumption -/
theorem lab_refines_map_params_dumps_proved (U : Universe) (sha1 : String → String) (task : Nat → Lt.Params.Task)
    (hrep : Lt.Link.Represents U sha1 task) (hwf : Lt.Link.WfTasks U.n task) (hdist : Lt.Link.Distinct U.n task)
    (hsha : Lt.Link.ShaInjOn sha1 U.n task) (hfl : Lt.Link.WfFloatsOn U.n task)
    (hpre : ∀ T, U.namePrefix T T = true) (ops : List Op) (d : Disk) (wf : Wf U d) :
    abs U (histC U d ops).1 = (histA U (abs U d) ops).1 ∧
    outsSame (histC U d ops).2 (histA U (abs U d) ops).2 ∧
    Wf U (histC U d ops).1 :=
  lab_refines_map_params U sha1 task hrep hwf hdist hsha (Lt.Link.dumpsInjOn_of_wfFloats U.n task hfl)
    hpre ops d wf

/-- `labRun_agrees_with_scheduler_params` without the `json.dumps` assumption -/
theorem labRun_agrees_with_scheduler_params_dumps_proved (U : Universe) (sha1 : String → String)
    (task : Nat → Lt.Params.Task)
    (hrep : Lt.Link.Represents U sha1 task) (hwf : Lt.Link.WfTasks U.n task) (hdist : Lt.Link.Distinct U.n task)
    (hsha : Lt.Link.ShaInjOn sha1 U.n task) (hfl : Lt.Link.WfFloatsOn U.n task)
    (mp : Nat → Option Nat) (g : Nat) (fl req : List Nat) (hU : Lt.Link.UOK U req)
    (d : Disk) (wf : Wf U d)
    (cfg : Lt.Config) (hcf : cfg.contOnFail = true) (fuel : Nat) (hF : ∀ t ∈ req, t < fuel)
    (hL : 0 < cfg.maxWorkers ∧ ∀ T L, mp T = some L → 0 < L)
    (sched : List Lt.Choice) (hfair : Lt.Fair sched)
    (hlen : (neededFrom U (fun t => !cfg.bust && labIsCached U d t) req).length + 1 ≤ sched.length) :
    (∀ t, Lt.lookup t (Lt.run cfg (Lt.Link.toProblem U mp g fl req) (Lt.Link.diskStore U d) fuel sched).store =
      (cLoad U (labRun U cfg.bust g fl req d).disk t).map (fun s => s.val)) ∧
    (Lt.run cfg (Lt.Link.toProblem U mp g fl req) (Lt.Link.diskStore U d) fuel sched).status =
      .returned (returned (Lt.dedup req) (labRun U cfg.bust g fl req d)) :=
  labRun_agrees_with_scheduler_params U sha1 task hrep hwf hdist hsha
    (Lt.Link.dumpsInjOn_of_wfFloats U.n task hfl) mp g fl req hU d wf cfg hcf fuel hF hL sched hfair hlen

/-- non-vacuity: all hypotheses of the `_dumps_proved` links hold together on `exPU` -/
example : Lt.Link.UOK Lt.Link.exPU [2] ∧ Wf Lt.Link.exPU [] ∧
    Lt.Link.Represents Lt.Link.exPU Lt.Link.exSha Lt.Link.exTask ∧ Lt.Link.WfTasks 3 Lt.Link.exTask ∧
    Lt.Link.Distinct 3 Lt.Link.exTask ∧
    Lt.Link.ShaInjOn Lt.Link.exSha 3 Lt.Link.exTask ∧ Lt.Link.WfFloatsOn 3 Lt.Link.exTask ∧
    (∀ T, Lt.Link.exPU.namePrefix T T = true) :=
  ⟨Lt.Link.exPU_uok [2] (by decide), wf_nil _, Lt.Link.exPU_represents,
   Lt.Link.exTask_wf, Lt.Link.exTask_distinct, Lt.Link.exSha_injOn, Lt.Link.exTask_wfFloats,
   fun T => by simp [Lt.Link.exPU, Lt.Link.paramsUniverse, Lt.Link.exBase]⟩

end Lt.Props.C08
