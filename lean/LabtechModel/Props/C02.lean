import LabtechModel.Proofs.Ready
import LabtechModel.Proofs.InvMain
import LabtechModel.Proofs.IntrDeps
/-!
# C02 — A task never starts before all of its dependencies have finished

Proved here (all problems, configurations, cache pre-states, schedules):
* a task is only ever submitted from `get_ready_tasks`, which lists a pending task only when its
  set of pending dependencies is empty (`submitted_has_no_pending_deps`);
* `complete_task` is the only operation that shrinks a pending-dependency set, and it removes
  exactly the completing task (`complete_only_unblocks_itself`);
* inside `run()` a dependency is read by its own identity from the results visible to the worker:
  a missing entry (failed or died dependency) is a raise, never a default or another task's value
  (`read_is_own_or_raises`).
Whole runs (every problem, configuration, cache pre-state, fuel and schedule; no hypothesis needed;
from the master invariant `Reach` of `Proofs/InvLoop.lean`):
* `start_after_deps` / `start_after_deps_loophead`: in the trace of a run (and of every loop-head
  state) every `submit t`, `start t` and `exec t` is preceded by a `yield d` of every recorded direct
  dependency `d` of `t`;
* `ddeps_complete`: the recorded direct dependencies of `t` contain the tid of every task object
  found in the parameters of every planned object of `t`, unless `t` is served from cache;
* `dep_result_visible`: when `run()` of `t` is executed, what it reads comes from a snapshot in
  which every direct dependency `d` has the value `v` iff `d` was yielded with `ok v` before — so a
  dependency that failed or died has *no* entry and the read raises (`read_is_own_or_raises`);
  `dep_read_value` spells this out per parameter object.
At every instant of every interrupted run (statement-level model M10, `Proofs/IntrDeps.lean`; no hypothesis):
* `start_after_deps_every_instant` / `_handler` / `_second` / `start_after_deps_interrupted`: the same
  statement for the trace of the state after EVERY primitive prefix of the main stream, of the first
  Ctrl-C handler entered at any instant, and of the second handler entered at any instant of the first;
  `pending_deps_shrink_only_by_yield`: the mechanism, in all those states.
Not covered: that `exec t` comes after `start t` of the same task (not recorded in the trace
predicate), and nested containers (the model's `children` is already the flattened list).
-/
namespace Lt.Props.C02
open Lt

/-- every task handed to `start_task`/`submit_task` in the submit phase has no pending dependency -/
theorem submitted_has_no_pending_deps (p : Problem) (rs : RS) (t : Tid)
    (h : t ∈ readyTasks p rs.ts) : rs.ts.pendDeps t = [] ∧ t ∈ rs.ts.pending :=
  readyTasks_no_pending_deps p rs.ts t h

theorem unblock_only_removes (t : Tid) : ∀ (ds : List Tid) (pd pd' : Tid → List Tid),
    unblock t ds pd = some pd' → ∀ x y, y ∈ pd' x → y ∈ pd x ∧ (y = t → x ∉ ds) := by
  intro ds
  induction ds with
  | nil => intro pd pd' h x y hy; simp only [unblock, Option.some.injEq] at h; subst h; exact ⟨hy, by simp⟩
  | cons d ds ih =>
    intro pd pd' h x y hy
    simp only [unblock] at h
    cases hr : setRemove (pd d) t with
    | none => simp [hr] at h
    | some l =>
      simp only [hr] at h
      have hl := (setRemove_some _ _ _ hr).2
      obtain ⟨h1, h2⟩ := ih _ _ h x y hy
      simp only [upd] at h1
      by_cases hx : x = d
      · subst hx
        simp only [if_true] at h1
        rw [hl] at h1
        simp only [List.mem_filter, decide_eq_true_eq] at h1
        exact ⟨h1.1, fun hyt => absurd hyt h1.2⟩
      · simp only [hx, if_false] at h1
        exact ⟨h1, fun hyt => by simp [hx, h2 hyt]⟩

/-- completing `t` never adds a pending dependency and only ever removes `t` itself -/
theorem complete_only_unblocks_itself (s s' : TS) (t : Tid) (rem : List Tid)
    (h : completeTask s t = some (s', rem)) (x y : Tid) (hy : y ∈ s'.pendDeps x) :
    y ∈ s.pendDeps x := by
  obtain ⟨act, pd, pdt, rem0, _, hpd, _, hs, _⟩ := completeTask_some s s' t rem h
  subst hs
  exact (unblock_only_removes t _ _ _ hpd x y hy).1

/-- a dependency that is pending for `x` stays pending until that very dependency completes -/
theorem pending_dep_stays_until_it_completes (s s' : TS) (t : Tid) (rem : List Tid)
    (h : completeTask s t = some (s', rem)) (x y : Tid) (hy : y ∈ s.pendDeps x) (hne : y ≠ t) :
    y ∈ s'.pendDeps x := by
  obtain ⟨act, pd, pdt, rem0, _, hpd, _, hs, _⟩ := completeTask_some s s' t rem h
  subst hs
  simp only
  -- generalised over the walk of `unblock`
  have key : ∀ (ds : List Tid) (pd0 pd1 : Tid → List Tid), unblock t ds pd0 = some pd1 →
      y ∈ pd0 x → y ∈ pd1 x := by
    intro ds
    induction ds with
    | nil => intro pd0 pd1 h0 hy0; simp only [unblock, Option.some.injEq] at h0; subst h0; exact hy0
    | cons d ds ih =>
      intro pd0 pd1 h0 hy0
      simp only [unblock] at h0
      cases hr : setRemove (pd0 d) t with
      | none => simp [hr] at h0
      | some l =>
        simp only [hr] at h0
        apply ih _ _ h0
        simp only [upd]
        split
        · next hx => subst hx; rw [(setRemove_some _ _ _ hr).2]; simp [hy0, hne]
        · exact hy0
  exact key _ _ _ hpd hy

/-- what `run()` reads for a dependency object is the entry stored under that dependency's own
    tid in the results visible to the worker; if there is none the read raises (`none`) -/
theorem read_is_own_or_raises (p : Problem) (i : Iid) (snap : List (Tid × Val)) :
    reads p i snap = (p.children i).map (fun c => lookup (p.tidOf c) snap) := rfl

theorem lookup_some_mem (t : Tid) (v : Val) : ∀ (l : List (Tid × Val)), lookup t l = some v → (t, v) ∈ l := by
  intro l
  induction l with
  | nil => intro h; simp [lookup] at h
  | cons kv rest ih =>
    intro h
    obtain ⟨k, w⟩ := kv
    simp only [lookup] at h
    split at h
    · next hk => subst hk; simp at h; subst h; exact List.mem_cons_self
    · exact List.mem_cons_of_mem _ (ih h)

/-- a failed or died dependency has no entry, so it is read as a raise: `processYield` stores a
    result only for an `ok` outcome -/
theorem failed_outcome_stores_nothing (cfg : Config) (req : List Tid) (rs : RS) (t : Tid) (o : Outcome)
    (ho : ∀ v, o ≠ .ok v) (d : Tid) (v : Val) (h : (d, v) ∈ (processYield cfg req rs t o).results) :
    (d, v) ∈ rs.results := by
  cases o with
  | ok v' => exact absurd rfl (ho v')
  | exc =>
    simp only [processYield] at h
    split at h
    · exact h
    · simp only at h; split at h
      · simp only [removeResults, List.mem_filter] at h; exact h.1
      · exact h
  | died =>
    simp only [processYield] at h
    split at h
    · exact h
    · simp only at h; split at h
      · simp only [removeResults, List.mem_filter] at h; exact h.1
      · exact h

/-! non-vacuity: a task with a dependency is not ready until the dependency completed -/
def exP : Problem where
  tidOf := fun i => i
  children := fun i => if i = 1 then [0] else []
  requested := [1]
  ty := fun _ => 0
  maxPar := fun _ => none
  cacheable := fun _ => false
  fails := fun _ => false
  dies := fun _ => false
  behave := fun t _ => some t
def exCfg : Config := { backend := .spawn, maxWorkers := 4, contOnFail := true, bust := false }

example : readyTasks exP (plan exCfg exP [] 3) = [0] ∧ (plan exCfg exP [] 3).pendDeps 1 = [0] ∧
    (run exCfg exP [] 3 [⟨fun _ => true⟩, ⟨fun _ => true⟩, ⟨fun _ => true⟩]).status = .returned [(1, 1)] := by
  decide

/-! ## whole runs -/

/-- in every loop-head trace a task is submitted, started and executed only after every one of
    its recorded direct dependencies has been yielded (finished, failed or died) -/
theorem start_after_deps_loophead (cfg : Config) (p : Problem) (store : Store) (fuel : Nat) (sched : List Choice)
    (pre post : List Ev) (e : Ev) (t : Tid)
    (he : (∃ uc, e = Ev.submit t uc) ∨ e = Ev.start t ∨ (∃ seen, e = Ev.exec t seen))
    (h : (runLoop cfg p (reqTids p) sched (initRS cfg p store fuel)).trace = pre ++ e :: post) :
    ∀ d ∈ (plan cfg p store fuel).ddeps t, ∃ o, Ev.yield d o ∈ pre :=
  loopHead_after_deps cfg p store fuel sched pre post e t he h

/-- the same for the trace of a whole run -/
theorem start_after_deps (cfg : Config) (p : Problem) (store : Store) (fuel : Nat) (sched : List Choice)
    (pre post : List Ev) (e : Ev) (t : Tid)
    (he : (∃ uc, e = Ev.submit t uc) ∨ e = Ev.start t ∨ (∃ seen, e = Ev.exec t seen))
    (h : (run cfg p store fuel sched).trace = pre ++ e :: post) :
    ∀ d ∈ (plan cfg p store fuel).ddeps t, ∃ o, Ev.yield d o ∈ pre := by
  rw [run_trace] at h
  exact loopHead_after_deps cfg p store fuel sched pre post e t he h

/-- the recorded direct dependencies are complete: every task object in the parameters of a planned,
    not-cached object of `t` is one -/
theorem ddeps_complete (cfg : Config) (p : Problem) (store : Store) (fuel : Nat) (t : Tid) (i : Iid)
    (hi : i ∈ (plan cfg p store fuel).instances t) (hc : useCache cfg p store t = false) :
    ∀ c ∈ p.children i, p.tidOf c ∈ (plan cfg p store fuel).ddeps t :=
  plan_ddeps_complete cfg p store fuel t i hi hc

/-- when `run()` of `t` executes, its reads come from a snapshot that holds for each direct dependency
    exactly the value it was yielded with (none if it failed or died) -/
theorem dep_result_visible (cfg : Config) (p : Problem) (store : Store) (fuel : Nat) (sched : List Choice)
    (pre post : List Ev) (t : Tid) (seen : List (Option Val))
    (h : (run cfg p store fuel sched).trace = pre ++ Ev.exec t seen :: post) :
    ∃ snap, seen = reads p (repr0 (plan cfg p store fuel) t) snap ∧
      ∀ d ∈ (plan cfg p store fuel).ddeps t,
        (∃ o, Ev.yield d o ∈ pre) ∧ ∀ v, (lookup d snap = some v ↔ Ev.yield d (.ok v) ∈ pre) := by
  rw [run_trace] at h
  obtain ⟨snap, hs, hv⟩ := loopHead_exec_snapshot cfg p store fuel sched pre post t seen h
  refine ⟨snap, hs, fun d hd => ⟨?_, hv d hd⟩⟩
  exact loopHead_after_deps cfg p store fuel sched pre post _ t (Or.inr (Or.inr ⟨seen, rfl⟩)) h d hd

/-- per parameter object: the value `run()` of a planned, executed task reads for the task object `c`
    in its parameters is the value `tidOf c` was yielded with in this run, and a raise (`none`) if
    that dependency failed or died -/
theorem dep_read_value (cfg : Config) (p : Problem) (store : Store) (fuel : Nat) (sched : List Choice)
    (pre post : List Ev) (t : Tid) (seen : List (Option Val))
    (h : (run cfg p store fuel sched).trace = pre ++ Ev.exec t seen :: post)
    (ht : t ∈ (plan cfg p store fuel).pending) (hc : useCache cfg p store t = false) :
    ∃ rd : Iid → Option Val, seen = (p.children (repr0 (plan cfg p store fuel) t)).map rd ∧
      ∀ c ∈ p.children (repr0 (plan cfg p store fuel) t),
        (∃ o, Ev.yield (p.tidOf c) o ∈ pre) ∧
        ∀ v, (rd c = some v ↔ Ev.yield (p.tidOf c) (.ok v) ∈ pre) := by
  obtain ⟨snap, hs, hv⟩ := dep_result_visible cfg p store fuel sched pre post t seen h
  refine ⟨fun c => lookup (p.tidOf c) snap, hs, ?_⟩
  intro c hcm
  have hinst : repr0 (plan cfg p store fuel) t ∈ (plan cfg p store fuel).instances t := by
    have hne := plan_pending_instances cfg p store fuel t ht
    simp only [repr0]
    cases hl : (plan cfg p store fuel).instances t with
    | nil => exact absurd hl hne
    | cons a b => simp
  exact hv _ (plan_ddeps_complete cfg p store fuel t _ hinst hc c hcm)

/-- non-vacuity: in a concrete run task 3 (dependencies 1 and 2) is started after both were yielded,
    and its `run()` reads exactly their values -/
example :
    let tr := (run invExCfg invExP [] 4 (List.replicate 5 chooseAll)).trace
    tr = tr.take 18 ++ Ev.start 3 :: tr.drop 19 ∧
    tr = tr.take 20 ++ Ev.exec 3 [some 1000, some 2000] :: tr.drop 21 ∧
    (plan invExCfg invExP [] 4).ddeps 3 = [1, 2] ∧
    Ev.yield 1 (.ok 1000) ∈ tr.take 18 ∧ Ev.yield 2 (.ok 2000) ∈ tr.take 18 := by decide

/-- non-vacuity with a failing dependency: 1 raises, 3 still runs after both dependencies were
    yielded and reads a raise for 1 -/
example :
    let pr : Problem := { invExP with fails := fun t => t == 1 }
    let tr := (run { invExCfg with backend := .spawn } pr [] 4 (List.replicate 5 chooseAll)).trace
    Ev.yield 1 .exc ∈ tr ∧ Ev.exec 3 [none, some 2000] ∈ tr := by decide

/-! ## at EVERY INSTANT of EVERY INTERRUPTED run (statement granularity, model M10)

`Model/Intr.lean` re-expresses the coordinator loop as a stream of primitives, one per Python statement
that changes modelled state (`prims_refine_iteration`: executing all primitives of an iteration IS the
iteration of `Model/Run.lean`). `mainAt … k` is the state after the first `k` primitives of the main
loop's stream — in the middle of a submit phase, inside `_start_processes`, in the middle of
`complete_task` — for EVERY `k`; `handlerAt … k ds m` the state after `m` further primitives of the
`KeyboardInterrupt` handler (`cancel`, drain along `ds`) entered at instant `k`; `secondAt … k ds m m2`
after `m2` primitives of the second handler (`cancel`, `stop`, one last processing round) entered at
instant `m` of the first. (Same definitions as in `Props/C04.lean`.) The invariant `DI` of
`Proofs/IntrDeps.lean` holds in all of them, for every problem, configuration, cache pre-state, fuel,
schedule and drain schedule; no hypothesis. -/

/-- state after the first `k` primitives of the main loop's stream (`k` beyond its end: the end) -/
abbrev mainAt (cfg : Config) (p : Problem) (store : Store) (fuel : Nat) (sched : List Choice) (k : Nat) : IS :=
  stateAt cfg p store fuel sched k

/-- state after `m` primitives of the first interrupt handler entered at instant `k` -/
abbrev handlerAt (cfg : Config) (p : Problem) (store : Store) (fuel : Nat) (sched : List Choice) (k : Nat)
    (ds : List Choice) (m : Nat) : IS :=
  runPrims cfg p ((handlerPrims cfg p (reqTids p) ds (mainAt cfg p store fuel sched k)).take m)
    (mainAt cfg p store fuel sched k)

/-- state after `m2` primitives of the second handler entered at instant `m` of the first -/
abbrev secondAt (cfg : Config) (p : Problem) (store : Store) (fuel : Nat) (sched : List Choice) (k : Nat)
    (ds : List Choice) (m m2 : Nat) : IS :=
  runPrims cfg p ((secondPrims cfg p (reqTids p) (handlerAt cfg p store fuel sched k ds m)).take m2)
    (handlerAt cfg p store fuel sched k ds m)

/-- the states of `interruptedRun` (at the interrupt, and final) are among these -/
theorem interruptedRun_states (cfg : Config) (p : Problem) (store : Store) (fuel : Nat)
    (sched ds : List Choice) (k : Nat) (k2 : Option Nat) :
    (∃ k', (interruptedRun cfg p store fuel sched k ds k2).atIntr = mainAt cfg p store fuel sched k') ∧
    ((∃ k', (interruptedRun cfg p store fuel sched k ds k2).final = mainAt cfg p store fuel sched k') ∨
     (∃ m, (interruptedRun cfg p store fuel sched k ds k2).final = handlerAt cfg p store fuel sched k ds m) ∨
     (∃ m m2, (interruptedRun cfg p store fuel sched k ds k2).final = secondAt cfg p store fuel sched k ds m m2)) :=
  interruptedRun_cases store fuel sched ds k k2

/-- C02 AT EVERY INSTANT of the main loop: in the trace of the state after ANY number `k` of
    primitives (mid-submit-phase, inside `_start_processes`, mid-`complete_task` included), every
    `submit t`, `start t` and `exec t` is preceded by a `yield d` of every recorded direct dependency -/
theorem start_after_deps_every_instant (cfg : Config) (p : Problem) (store : Store) (fuel : Nat)
    (sched : List Choice) (k : Nat) (pre post : List Ev) (e : Ev) (t : Tid)
    (he : (∃ uc, e = Ev.submit t uc) ∨ e = Ev.start t ∨ (∃ seen, e = Ev.exec t seen))
    (h : (mainAt cfg p store fuel sched k).rs.trace = pre ++ e :: post) :
    ∀ d ∈ (plan cfg p store fuel).ddeps t, ∃ o, Ev.yield d o ∈ pre :=
  (stateAt_DI store fuel sched k).after_deps pre post e t he h

/-- … and at every instant of the interrupt handler (cancel + drain) entered at any instant `k` -/
theorem start_after_deps_every_instant_handler (cfg : Config) (p : Problem) (store : Store) (fuel : Nat)
    (sched : List Choice) (k : Nat) (ds : List Choice) (m : Nat) (pre post : List Ev) (e : Ev) (t : Tid)
    (he : (∃ uc, e = Ev.submit t uc) ∨ e = Ev.start t ∨ (∃ seen, e = Ev.exec t seen))
    (h : (handlerAt cfg p store fuel sched k ds m).rs.trace = pre ++ e :: post) :
    ∀ d ∈ (plan cfg p store fuel).ddeps t, ∃ o, Ev.yield d o ∈ pre :=
  (handlerStateAt_DI store fuel sched k ds m).after_deps pre post e t he h

/-- … and at every instant of the second handler (double interrupt at any `k`, `m`): cancel, stop and
    the final processing round -/
theorem start_after_deps_every_instant_second (cfg : Config) (p : Problem) (store : Store) (fuel : Nat)
    (sched : List Choice) (k : Nat) (ds : List Choice) (m m2 : Nat) (pre post : List Ev) (e : Ev) (t : Tid)
    (he : (∃ uc, e = Ev.submit t uc) ∨ e = Ev.start t ∨ (∃ seen, e = Ev.exec t seen))
    (h : (secondAt cfg p store fuel sched k ds m m2).rs.trace = pre ++ e :: post) :
    ∀ d ∈ (plan cfg p store fuel).ddeps t, ∃ o, Ev.yield d o ∈ pre :=
  (secondStateAt_DI store fuel sched k ds m m2).after_deps pre post e t he h

/-- the same for `interruptedRun` itself: the state at the interrupt and the final state, for every
    interrupt instant `k`, drain schedule `ds` and optional second interrupt instant `k2` -/
theorem start_after_deps_interrupted (cfg : Config) (p : Problem) (store : Store) (fuel : Nat)
    (sched ds : List Choice) (k : Nat) (k2 : Option Nat) (pre post : List Ev) (e : Ev) (t : Tid)
    (he : (∃ uc, e = Ev.submit t uc) ∨ e = Ev.start t ∨ (∃ seen, e = Ev.exec t seen))
    (h : (interruptedRun cfg p store fuel sched k ds k2).final.rs.trace = pre ++ e :: post ∨
         (interruptedRun cfg p store fuel sched k ds k2).atIntr.rs.trace = pre ++ e :: post) :
    ∀ d ∈ (plan cfg p store fuel).ddeps t, ∃ o, Ev.yield d o ∈ pre := by
  obtain ⟨⟨k', h1⟩, h2⟩ := interruptedRun_states cfg p store fuel sched ds k k2
  rcases h with h | h
  · rcases h2 with ⟨k'', h2⟩ | ⟨m, h2⟩ | ⟨m, m2, h2⟩
    · rw [h2] at h; exact start_after_deps_every_instant cfg p store fuel sched k'' pre post e t he h
    · rw [h2] at h; exact start_after_deps_every_instant_handler cfg p store fuel sched k ds m pre post e t he h
    · rw [h2] at h; exact start_after_deps_every_instant_second cfg p store fuel sched k ds m m2 pre post e t he h
  · rw [h1] at h; exact start_after_deps_every_instant cfg p store fuel sched k' pre post e t he h

/-- the mechanism, at every instant of all three streams: a recorded dependency `d` of `x` that is no
    longer in `task_to_pending_dependencies[x]` has been yielded — also in the middle of
    `complete_task`, and whatever the handlers did -/
theorem pending_deps_shrink_only_by_yield (cfg : Config) (p : Problem) (store : Store) (fuel : Nat)
    (sched : List Choice) (k : Nat) (ds : List Choice) (m m2 : Nat) (x d : Tid)
    (hd : d ∈ (plan cfg p store fuel).ddeps x) :
    (d ∈ (mainAt cfg p store fuel sched k).rs.ts.pendDeps x ∨
      ∃ o, Ev.yield d o ∈ (mainAt cfg p store fuel sched k).rs.trace) ∧
    (d ∈ (handlerAt cfg p store fuel sched k ds m).rs.ts.pendDeps x ∨
      ∃ o, Ev.yield d o ∈ (handlerAt cfg p store fuel sched k ds m).rs.trace) ∧
    (d ∈ (secondAt cfg p store fuel sched k ds m m2).rs.ts.pendDeps x ∨
      ∃ o, Ev.yield d o ∈ (secondAt cfg p store fuel sched k ds m m2).rs.trace) := by
  simp only [← mem_yieldedOf]
  exact ⟨(stateAt_DI store fuel sched k).pdY x d hd, (handlerStateAt_DI store fuel sched k ds m).pdY x d hd,
    (secondStateAt_DI store fuel sched k ds m m2).pdY x d hd⟩

/-! non-vacuity at mid-iteration instants and in interrupted runs (`exP`: task 1 needs task 0; `exCfg`:
    spawn, 4 workers). The main stream (29 primitives): 0 startTask 0, 1 enqueue 0, 2 procStart 0,
    3 regRunning 0, 4 unregPending 0, 5 regFuture 0, 6 consumeResults, 7 popFuture 0, 8 storeResult 0,
    9 markInstances 0, 10 removeActive 0, 11 unblockOne 0 1, 12 removeDone, 13 startTask 1,
    14 enqueue 1, 15 procStart 1, 16 regRunning 1, 17 unregPending 1, 18 regFuture 1, 19 consumeResults … -/
def exAll : List Choice := [⟨fun _ => true⟩, ⟨fun _ => true⟩, ⟨fun _ => true⟩]

/-- k = 16, strictly between two loop heads (inside `_start_processes`: `process.start()` of task 1
    done, the running map not yet written): the trace holds `start 1`, after `yield 0` -/
example : (mainOf exCfg exP [] 3 exAll).length = 29 ∧
    (mainAt exCfg exP [] 3 exAll 16).rs.trace =
      [.submit 0 false, .start 0, .waitEnter [] [0], .exec 0 [], .yield 0 (.ok 0), .remove [] [0],
       .submit 1 false, .start 1] ∧
    (mainAt exCfg exP [] 3 exAll 16).alive = [1] ∧ (mainAt exCfg exP [] 3 exAll 16).rs.running = [] ∧
    (plan exCfg exP [] 3).ddeps 1 = [0] := by decide

/-- k = 10, in the middle of `complete_task(0)` (`removeActive 0` done, `unblockOne 0 1` not yet), then
    the handler runs to its end: task 1 is still blocked and is never submitted -/
example : (mainAt exCfg exP [] 3 exAll 10).rs.ts.pendDeps 1 = [0] ∧
    (interruptedRun exCfg exP [] 3 exAll 10 exAll none).outcome = .interrupted ∧
    (interruptedRun exCfg exP [] 3 exAll 10 exAll none).final.rs.trace =
      [.submit 0 false, .start 0, .waitEnter [] [0], .exec 0 [], .yield 0 (.ok 0)] := by decide

/-- single interrupt at k = 19 (task 1 submitted and started): the handler's drain executes task 1
    AFTER the interrupt — the trace at the interrupt has 8 events, `exec 1` is the 10th of the final
    trace — and `run()` of 1 comes after `yield 0` -/
example :
    (interruptedRun exCfg exP [] 3 exAll 19 exAll none).hit = true ∧
    (interruptedRun exCfg exP [] 3 exAll 19 exAll none).outcome = .interrupted ∧
    (interruptedRun exCfg exP [] 3 exAll 19 exAll none).atIntr.rs.trace.length = 8 ∧
    (interruptedRun exCfg exP [] 3 exAll 19 exAll none).final.rs.trace =
      [.submit 0 false, .start 0, .waitEnter [] [0], .exec 0 [], .yield 0 (.ok 0), .remove [] [0],
       .submit 1 false, .start 1, .waitEnter [] [1], .exec 1 [some 0], .yield 1 (.ok 1), .remove [0, 1] []] := by
  decide

/-- double interrupt (k = 19, second one before the first `cancel` step): `stop()` terminates the
    worker of 1, the last processing round starts nothing; `start 1` is on record, after `yield 0` -/
example :
    (interruptedRun exCfg exP [] 3 exAll 19 exAll (some 0)).outcome = .interrupted ∧
    (interruptedRun exCfg exP [] 3 exAll 19 exAll (some 0)).final.terminated = [1] ∧
    (interruptedRun exCfg exP [] 3 exAll 19 exAll (some 0)).final.rs.trace =
      [.submit 0 false, .start 0, .waitEnter [] [0], .exec 0 [], .yield 0 (.ok 0), .remove [] [0],
       .submit 1 false, .start 1, .waitEnter [] []] := by decide

/-- the theorem applied to that run: the hypotheses are satisfiable and the conclusion is about a real
    `start` event -/
example : ∃ o, Ev.yield 0 o ∈ [Ev.submit 0 false, .start 0, .waitEnter [] [0], .exec 0 [], .yield 0 (.ok 0),
    .remove [] [0], .submit 1 false] :=
  start_after_deps_interrupted exCfg exP [] 3 exAll exAll 19 (some 0) _ [.waitEnter [] []] (.start 1) 1
    (Or.inr (Or.inl rfl)) (Or.inl (by decide)) 0 (by decide)

end Lt.Props.C02
