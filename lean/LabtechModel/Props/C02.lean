import LabtechModel.Proofs.Ready
/-!
# C02 — A task never starts before all of its dependencies have finished

Proved here (all problems, configurations, cache pre-states, schedules):
* a task is only ever submitted from `get_ready_tasks`, which lists a pending task only when its
  set of pending dependencies is empty (`submitted_has_no_pending_deps`);
* `complete_task` is the only operation that shrinks a pending-dependency set, and it removes
  exactly the completing task (`complete_only_unblocks_itself`);
* inside `run()` a dependency is read by its own identity from the results visible to the worker:
  a missing entry (failed or died dependency) is a raise, never a default or another task's value
  (`read_is_own_or_raises`).
The full trace statement (`start t` is preceded by `yield d` for every dependency) additionally
needs the invariant `pendDeps t = unfinished direct dependencies of t`; see DESIGN.md section 7.
-/
namespace Lt.Props.C02
open Lt

/-- every task handed to `start_task`/`submit_task` in the submit phase has no pending dependency -/
theorem submitted_has_no_pending_deps (p : Problem) (rs : RS) (t : Tid)
    (h : t ∈ readyTasks p rs.ts) : rs.ts.pendDeps t = [] ∧ t ∈ rs.ts.pending :=
  readyTasks_no_pending_deps p rs.ts t h

theorem unblock_only_removes (t : Tid) : ∀ (ds : List Tid) (pd pd' : Tid → List Tid),
    unblock t ds pd = some pd' → ∀ x y, y ∈ pd' x → y ∈ pd x ∧ (y = t → x ∉ ds) := by
  intro ds
  induction ds with
  | nil => intro pd pd' h x y hy; simp only [unblock, Option.some.injEq] at h; subst h; exact ⟨hy, by simp⟩
  | cons d ds ih =>
    intro pd pd' h x y hy
    simp only [unblock] at h
    cases hr : setRemove (pd d) t with
    | none => simp [hr] at h
    | some l =>
      simp only [hr] at h
      have hl := (setRemove_some _ _ _ hr).2
      obtain ⟨h1, h2⟩ := ih _ _ h x y hy
      simp only [upd] at h1
      by_cases hx : x = d
      · subst hx
        simp only [if_true] at h1
        rw [hl] at h1
        simp only [List.mem_filter, decide_eq_true_eq] at h1
        exact ⟨h1.1, fun hyt => absurd hyt h1.2⟩
      · simp only [hx, if_false] at h1
        exact ⟨h1, fun hyt => by simp [hx, h2 hyt]⟩

/-- completing `t` never adds a pending dependency and only ever removes `t` itself -/
theorem complete_only_unblocks_itself (s s' : TS) (t : Tid) (rem : List Tid)
    (h : completeTask s t = some (s', rem)) (x y : Tid) (hy : y ∈ s'.pendDeps x) :
    y ∈ s.pendDeps x := by
  obtain ⟨act, pd, pdt, rem0, _, hpd, _, hs, _⟩ := completeTask_some s s' t rem h
  subst hs
  exact (unblock_only_removes t _ _ _ hpd x y hy).1

/-- a dependency that is pending for `x` stays pending until that very dependency completes -/
theorem pending_dep_stays_until_it_completes (s s' : TS) (t : Tid) (rem : List Tid)
    (h : completeTask s t = some (s', rem)) (x y : Tid) (hy : y ∈ s.pendDeps x) (hne : y ≠ t) :
    y ∈ s'.pendDeps x := by
  obtain ⟨act, pd, pdt, rem0, _, hpd, _, hs, _⟩ := completeTask_some s s' t rem h
  subst hs
  simp only
  -- generalised over the walk of `unblock`
  have key : ∀ (ds : List Tid) (pd0 pd1 : Tid → List Tid), unblock t ds pd0 = some pd1 →
      y ∈ pd0 x → y ∈ pd1 x := by
    intro ds
    induction ds with
    | nil => intro pd0 pd1 h0 hy0; simp only [unblock, Option.some.injEq] at h0; subst h0; exact hy0
    | cons d ds ih =>
      intro pd0 pd1 h0 hy0
      simp only [unblock] at h0
      cases hr : setRemove (pd0 d) t with
      | none => simp [hr] at h0
      | some l =>
        simp only [hr] at h0
        apply ih _ _ h0
        simp only [upd]
        split
        · next hx => subst hx; rw [(setRemove_some _ _ _ hr).2]; simp [hy0, hne]
        · exact hy0
  exact key _ _ _ hpd hy

/-- what `run()` reads for a dependency object is the entry stored under that dependency's own
    tid in the results visible to the worker; if there is none the read raises (`none`) -/
theorem read_is_own_or_raises (p : Problem) (i : Iid) (snap : List (Tid × Val)) :
    reads p i snap = (p.children i).map (fun c => lookup (p.tidOf c) snap) := rfl

theorem lookup_some_mem (t : Tid) (v : Val) : ∀ (l : List (Tid × Val)), lookup t l = some v → (t, v) ∈ l := by
  intro l
  induction l with
  | nil => intro h; simp [lookup] at h
  | cons kv rest ih =>
    intro h
    obtain ⟨k, w⟩ := kv
    simp only [lookup] at h
    split at h
    · next hk => subst hk; simp at h; subst h; exact List.mem_cons_self
    · exact List.mem_cons_of_mem _ (ih h)

/-- a failed or died dependency has no entry, so it is read as a raise: `processYield` stores a
    result only for an `ok` outcome -/
theorem failed_outcome_stores_nothing (cfg : Config) (req : List Tid) (rs : RS) (t : Tid) (o : Outcome)
    (ho : ∀ v, o ≠ .ok v) (d : Tid) (v : Val) (h : (d, v) ∈ (processYield cfg req rs t o).results) :
    (d, v) ∈ rs.results := by
  cases o with
  | ok v' => exact absurd rfl (ho v')
  | exc =>
    simp only [processYield] at h
    split at h
    · exact h
    · simp only at h; split at h
      · simp only [removeResults, List.mem_filter] at h; exact h.1
      · exact h
  | died =>
    simp only [processYield] at h
    split at h
    · exact h
    · simp only at h; split at h
      · simp only [removeResults, List.mem_filter] at h; exact h.1
      · exact h

/-! non-vacuity: a task with a dependency is not ready until the dependency completed -/
def exP : Problem where
  tidOf := fun i => i
  children := fun i => if i = 1 then [0] else []
  requested := [1]
  ty := fun _ => 0
  maxPar := fun _ => none
  cacheable := fun _ => false
  fails := fun _ => false
  dies := fun _ => false
  behave := fun t _ => some t
def exCfg : Config := { backend := .spawn, maxWorkers := 4, contOnFail := true, bust := false }

example : readyTasks exP (plan exCfg exP [] 3) = [0] ∧ (plan exCfg exP [] 3).pendDeps 1 = [0] ∧
    (run exCfg exP [] 3 [⟨fun _ => true⟩, ⟨fun _ => true⟩, ⟨fun _ => true⟩]).status = .returned [(1, 1)] := by
  decide

end Lt.Props.C02
