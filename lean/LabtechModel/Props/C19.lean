import LabtechModel.Proofs.Log
/-!
# C19 — Messages emitted by a task reach the caller's log exactly once

Statements over `Model/Log.lean`; no bound on the number of workers, emissions, operations or rounds.

* `proxy_conserves` — at any point of any write/flush sequence on a `LoggerFileProxy`: (what was handed
  to `logger_func`, concatenated) ++ (what is still buffered) = the non-blank writes so far, in order;
* `proxy_exactly_once` — for every write/flush sequence followed by a final flush, the concatenation of
  what was handed to `logger_func` is every non-blank write, once, in order, and the buffer is empty;
* `flush_idempotent` — a flush directly after a flush hands over nothing;
* `proxy_no_empty_message` — `logger_func` is never called with nothing to say;
* `worker_exactly_once` — for every emission pattern of `run()` (logger calls, stdout / stderr writes,
  explicit flushes anywhere): the records the worker has put on the log queue when it hands over its
  result carry every logger message, every non-blank stdout write and every non-blank stderr write once,
  in order (this uses the `finally` flush of `_subprocess_func`);
* `conservation` — in every state the coordinator loop reaches, for every worker: delivered ++ still on the
  log queue ++ not yet put = its records (FIFO, each `get` handles one record once);
* `no_duplicates` — so what has been delivered of a worker is always a prefix of what it emits;
* `delivered_before_return` — for every number of workers, every record list per worker, every schedule
  (which worker puts how many records / finishes before a `wait`, inside its `executor.wait`, or between
  the result drain and the second log drain, in every round): when the loop exits, i.e. after the round
  that consumed the last result, every worker's records have all been delivered, in order;
* `exactly_once` — … each record exactly as often as the worker put it;
* `task_output_delivered` — the end-to-end form: at loop exit the caller's log holds, for every task, every
  logger message and every non-blank stdout / stderr write of its `run()`, once, in order.
* `consumed_delivered`, `delivered_before_raise`, `delivered_before_return_any`, `no_duplicates_any_exit`,
  `runLoop_continue` — the loop with task outcomes (`runLoop`): `wait` yields after its second drain and, with
  `continue_on_failure=False`, the coordinator raises `LabError` at the first failed outcome, abandoning the
  generator.  Whichever way the loop ends, every worker whose result `executor.wait` has taken — in particular
  the failing one and everything collected in the same polling round — has had all its records delivered
  exactly once, in order; with `continue_on_failure=True` `runLoop` is `loop`.
* `died_worker_records`, `died_worker_prefix_delivered` — a worker whose process dies hard after a prefix of
  its `run()` has put every logger record of that prefix on the queue (and of its captured output exactly what
  explicit flushes had handed over), and the parent has delivered them once it has noticed the death.
An `example` shows that the drain *after* `executor.wait` is what `delivered_before_return` rests on: the
same loop without it loses the records of the task that finishes last; another that the drain must come
*before the first yield*: with the drain at the tail of the generator a raise loses the failing task's records.
-/
namespace Lt.Props.C19
open Lt.Log

theorem proxy_conserves (ops : List POp) :
    (prun [] ops).2.flatten ++ (prun [] ops).1 = nonBlank (writes ops) := by
  simpa using prun_conserve ops []

theorem proxy_exactly_once (ops : List POp) :
    (prun [] (ops ++ [.flush])).2.flatten = nonBlank (writes ops) ∧ (prun [] (ops ++ [.flush])).1 = [] := by
  have h := prun_conserve (ops ++ [.flush]) []
  have hb : (prun [] (ops ++ [.flush])).1 = [] := by
    rw [prun_append]; simp [prun, pflush_bufs]
  have hw : writes (ops ++ [.flush]) = writes ops := by simp [writes_append, writes]
  rw [hb, hw] at h
  exact ⟨by simpa using h, hb⟩

theorem flush_idempotent (b : List String) :
    (pflush (pflush b).1).2 = [] ∧ (prun b [.flush, .flush]).2 = (pflush b).2 := by
  have h : (pflush (pflush b).1).2 = [] := by rw [pflush_bufs]; rfl
  exact ⟨h, by simp [prun, h]⟩

theorem proxy_no_empty_message (ops : List POp) : ∀ m ∈ (prun [] ops).2, m ≠ [] :=
  prun_nonempty ops []

theorem worker_exactly_once (ems : List Emit) :
    logsOf (workerRecords ems) = emLogs ems ∧
    outBufs (workerRecords ems) = nonBlank (emOuts ems) ∧
    errBufs (workerRecords ems) = nonBlank (emErrs ems) := by
  obtain ⟨h1, h2, h3⟩ := emitAll_conserve (ems ++ [.flushOut, .flushErr]) { out := [], err := [] }
  have hfin : (emitAll { out := [], err := [] } (ems ++ [.flushOut, .flushErr])).1 = { out := [], err := [] } := by
    rw [emitAll_append]; exact final_flush_empties _
  rw [hfin] at h2 h3
  simp only [emLogs_append, emOuts_append, emErrs_append, emLogs, emOuts, emErrs, List.append_nil,
    List.nil_append] at h1 h2 h3
  exact ⟨h1, h2, h3⟩

theorem conservation (n : Nat) (recs : Nat → List Rec) (sched : List Round) (w : Nat) :
    let s := loop (init n recs) sched
    proj w s.delivered ++ proj w s.logq ++ s.todo w = recs w :=
  (inv_loop n recs sched _ (inv_init n recs) rfl).1.split w

theorem no_duplicates (n : Nat) (recs : Nat → List Rec) (sched : List Round) (w : Nat) :
    ∃ rest, proj w (loop (init n recs) sched).delivered ++ rest = recs w :=
  ⟨_, by rw [← List.append_assoc]; exact conservation n recs sched w⟩

theorem delivered_before_return (n : Nat) (recs : Nat → List Rec) (sched : List Round)
    (hexit : allConsumed (loop (init n recs) sched) = true) (w : Nat) (hw : w < n) :
    proj w (loop (init n recs) sched).delivered = recs w := by
  obtain ⟨hinv, hq⟩ := inv_loop n recs sched _ (inv_init n recs) rfl
  have hc := mem_consumed_of_all _ hexit w (by rw [hinv.hn]; exact hw)
  have ht := hinv.fin w (hinv.con w hc)
  have := hinv.split w
  rw [hq, ht] at this
  simpa [proj] using this

theorem exactly_once (n : Nat) (recs : Nat → List Rec) (sched : List Round)
    (hexit : allConsumed (loop (init n recs) sched) = true) (w : Nat) (hw : w < n) (r : Rec) :
    (loop (init n recs) sched).delivered.count (w, r) = (recs w).count r := by
  rw [← count_proj, delivered_before_return n recs sched hexit w hw]

theorem task_output_delivered (n : Nat) (ems : Nat → List Emit) (sched : List Round)
    (hexit : allConsumed (loop (init n (fun w => workerRecords (ems w))) sched) = true) (w : Nat) (hw : w < n) :
    let d := proj w (loop (init n (fun w => workerRecords (ems w))) sched).delivered
    logsOf d = emLogs (ems w) ∧ outBufs d = nonBlank (emOuts (ems w)) ∧ errBufs d = nonBlank (emErrs (ems w)) := by
  simp only
  rw [delivered_before_return n _ sched hexit w hw]
  exact worker_exactly_once (ems w)

/-! ## every way `run_tasks` can hand control back

`runLoop` adds the outcomes: `wait` yields after its second drain, and with `continue_on_failure=False` the
coordinator raises `LabError` at the first failed outcome it is handed, abandoning the generator. -/

/-- at whatever point the coordinator loop stops or stands between two `wait`s — the schedule ran out, it
returned, or it raised — every worker whose result `executor.wait` has taken has had all of its records
delivered, in order: the drain after `executor.wait` comes before the first yield -/
theorem consumed_delivered (cof : Bool) (fails : Nat → Bool) (n : Nat) (recs : Nat → List Rec)
    (sched : List Round) (w : Nat)
    (hw : w ∈ (runLoop cof fails (init n recs) sched).1.consumed) :
    proj w (runLoop cof fails (init n recs) sched).1.delivered = recs w := by
  obtain ⟨hinv, hq⟩ := inv_runLoop n recs cof fails sched _ (inv_init n recs) rfl
  have ht := hinv.fin w (hinv.con w hw)
  have := hinv.split w
  rw [hq, ht] at this
  simpa [proj] using this

/-- exit by `LabError` (continue_on_failure=False): the error is for a failed worker whose outcome was taken
in that round, and everything that worker and every other worker consumed so far — in particular all
workers collected in the same polling round — put on the log queue has been delivered exactly once -/
theorem delivered_before_raise (cof : Bool) (fails : Nat → Bool) (n : Nat) (recs : Nat → List Rec)
    (sched : List Round) (f : Nat)
    (hraise : (runLoop cof fails (init n recs) sched).2 = .raised f) :
    cof = false ∧ fails f = true ∧
    proj f (runLoop cof fails (init n recs) sched).1.delivered = recs f ∧
    ∀ w ∈ (runLoop cof fails (init n recs) sched).1.consumed, ∀ r : Rec,
      (runLoop cof fails (init n recs) sched).1.delivered.count (w, r) = (recs w).count r := by
  obtain ⟨h1, h2, h3⟩ := runLoop_raised cof fails f sched _ hraise
  refine ⟨h1, h2, consumed_delivered cof fails n recs sched f h3, ?_⟩
  intro w hw r
  rw [← count_proj, consumed_delivered cof fails n recs sched w hw]

/-- exit by return, with failures anywhere and either `continue_on_failure` setting -/
theorem delivered_before_return_any (cof : Bool) (fails : Nat → Bool) (n : Nat) (recs : Nat → List Rec)
    (sched : List Round) (hret : (runLoop cof fails (init n recs) sched).2 = .returned) (w : Nat) (hw : w < n) :
    proj w (runLoop cof fails (init n recs) sched).1.delivered = recs w := by
  have hall := runLoop_returned cof fails sched _ hret
  have hn := (inv_runLoop n recs cof fails sched _ (inv_init n recs) rfl).1.hn
  exact consumed_delivered cof fails n recs sched w (mem_consumed_of_all _ hall w (by rw [hn]; exact hw))

/-- never more than emitted, never out of order, whichever way the loop ends -/
theorem no_duplicates_any_exit (cof : Bool) (fails : Nat → Bool) (n : Nat) (recs : Nat → List Rec)
    (sched : List Round) (w : Nat) :
    ∃ rest, proj w (runLoop cof fails (init n recs) sched).1.delivered ++ rest = recs w :=
  ⟨_, by rw [← List.append_assoc]
         exact (inv_runLoop n recs cof fails sched _ (inv_init n recs) rfl).1.split w⟩

/-- `continue_on_failure=True` (the default): the loop with outcomes is the plain loop above -/
theorem runLoop_continue (fails : Nat → Bool) (s : St) (sched : List Round) :
    (runLoop true fails s sched).1 = loop s sched := runLoop_cof fails sched s

/-! ## a worker that dies hard -/

/-- what a worker that dies after `pre` has put on the log queue: every logger record of `pre`, in order
(each is put synchronously when emitted), and of the captured output exactly a prefix — what explicit flushes
had handed over; nothing twice -/
theorem died_worker_records (pre : List Emit) :
    logsOf (diedRecords pre) = emLogs pre ∧
    (∃ rest, outBufs (diedRecords pre) ++ rest = nonBlank (emOuts pre)) ∧
    (∃ rest, errBufs (diedRecords pre) ++ rest = nonBlank (emErrs pre)) := by
  obtain ⟨h1, h2, h3⟩ := emitAll_conserve pre { out := [], err := [] }
  simp only [List.nil_append] at h2 h3
  exact ⟨h1, ⟨_, h2⟩, ⟨_, h3⟩⟩

/-- … and the parent delivers them: for every mix of workers that finish (`workerRecords`) and workers that
die hard after a prefix `ems w` of their `run()` (`diedRecords`), every schedule and either exit, once the
parent has noticed the death (the future is done), every logger record the dead worker emitted has been
delivered exactly once, in order -/
theorem died_worker_prefix_delivered (cof : Bool) (fails : Nat → Bool) (n : Nat) (ems : Nat → List Emit)
    (died : Nat → Bool) (sched : List Round) (w : Nat) (hd : died w = true)
    (hw : w ∈ (runLoop cof fails (init n (fun v => if died v then diedRecords (ems v) else workerRecords (ems v)))
            sched).1.consumed) :
    logsOf (proj w (runLoop cof fails (init n (fun v => if died v then diedRecords (ems v) else workerRecords (ems v)))
            sched).1.delivered) = emLogs (ems w) := by
  rw [consumed_delivered cof fails n _ sched w hw]
  simp only [hd, if_true]
  exact (died_worker_records (ems w)).1

/-! ## non-vacuity -/

/-- `print("a")`, flush, a blank write, `print("b")`, final flush, a second flush -/
example : (prun [] [.write "a", .write "\n", .flush, .write " \t", .write "b", .write "\n", .flush, .flush]).2
    = [["a"], ["b"]] := by decide

example : workerRecords [.log "m1", .out "x", .out "\n", .flushOut, .err "e", .out "y", .log "m2"]
    = [.logged "m1", .stdout ["x"], .logged "m2", .stdout ["y"], .stderr ["e"]] := by decide

def demoRecs : Nat → List Rec := fun w => workerRecords [.log (if w = 0 then "a" else "b"), .out "p"]

/-- two workers; worker 1 finishes last, inside `executor.wait` of the second round, after having put one
record early: the loop exits after that round (the hypothesis of `delivered_before_return` is satisfiable)
with everything delivered -/
def demoSched : List Round :=
  [{ a := [.advance 1 1], b := [.finish 0], c := [] }, { a := [], b := [.finish 1], c := [] }]

example : allConsumed (loop (init 2 demoRecs) demoSched) = true := by decide
example : (loop (init 2 demoRecs) demoSched).delivered
    = [(1, .logged "b"), (0, .logged "a"), (0, .stdout ["p"]), (1, .stdout ["p"])] := by decide
example : allConsumed (loop (init 2 demoRecs) (demoSched.take 1)) = false := by decide

/-- the same `wait` without the drain after `executor.wait` (the code before the D5c repair) -/
def waitRoundNoSecondDrain (s : St) (r : Round) : St :=
  consumeResults ((r.b.foldl envStep (consumeLog (r.a.foldl envStep s))))

def loopNoSecondDrain : St → List Round → St
  | s, [] => s
  | s, r :: rs => if allConsumed s then s else loopNoSecondDrain (waitRoundNoSecondDrain s r) rs

/-- … exits with the last-finishing worker's records still on the queue -/
example : allConsumed (loopNoSecondDrain (init 2 demoRecs) demoSched) = true
    ∧ proj 1 (loopNoSecondDrain (init 2 demoRecs) demoSched).delivered = [.logged "b"]
    ∧ demoRecs 1 = [.logged "b", .stdout ["p"]] := by decide

/-- worker 1 fails; it and worker 0 finish inside the same `executor.wait`; `continue_on_failure=False`:
the loop raises for worker 1 (hypothesis of `delivered_before_raise` is satisfiable) with both workers'
records delivered -/
def failSched : List Round := [{ a := [], b := [.finish 1, .finish 0], c := [] }]

example : (runLoop false (fun w => w == 1) (init 2 demoRecs) failSched).2 = .raised 1 := by decide
example : (runLoop false (fun w => w == 1) (init 2 demoRecs) failSched).1.delivered
    = [(1, .logged "b"), (1, .stdout ["p"]), (0, .logged "a"), (0, .stdout ["p"])] := by decide
example : (runLoop true (fun w => w == 1) (init 2 demoRecs) failSched).2 = .returned := by decide

/-- the same `wait` with the second drain at the tail of the generator (after the yields): a raise at a
yield abandons the generator before that drain — the state at the raise is the one without it … -/
def runLoopTailDrain (fails : Nat → Bool) : St → List Round → St × Exit
  | s, [] => (s, .running)
  | s, r :: rs =>
    if allConsumed s then (s, .returned)
    else
      match (yieldOrder s.n s.consumed (waitRoundNoSecondDrain s r).consumed).find? fails with
      | some w => (waitRoundNoSecondDrain s r, .raised w)
      | none => runLoopTailDrain fails (consumeLog (r.c.foldl envStep (waitRoundNoSecondDrain s r))) rs

/-- … and the failing task's own records (and its round-mates') are lost -/
example : (runLoopTailDrain (fun w => w == 1) (init 2 demoRecs) failSched).2 = .raised 1
    ∧ (runLoopTailDrain (fun w => w == 1) (init 2 demoRecs) failSched).1.delivered = [] := by decide

/-- dies after two logger records, a flushed print and an unflushed one: the unflushed print is lost, the rest is there -/
example : diedRecords [.log "a", .out "x", .flushOut, .log "b", .out "y"]
    = [.logged "a", .stdout ["x"], .logged "b"] := by decide

example : (runLoop true (fun _ => false)
      (init 1 (fun _ => diedRecords [.log "a", .out "x", .flushOut, .log "b", .out "y"]))
      [{ a := [], b := [.finish 0], c := [] }]).1.delivered
    = [(0, .logged "a"), (0, .stdout ["x"]), (0, .logged "b")] := by decide

end Lt.Props.C19
