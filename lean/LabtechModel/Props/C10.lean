import LabtechModel.Proofs.Submit
import LabtechModel.Proofs.InvMain
import LabtechModel.Proofs.Inv2Main
import LabtechModel.Proofs.Inv2FailFast
/-!
# C10 — One task's failure never disturbs unrelated tasks

Proved here, for every state, task and failing outcome (raise or death):
* with `continue_on_failure`, handling a failed task never raises (`failure_is_skipped`): the run
  carries on; the failed task stores no result and nothing is captured for it
  (`failed_task_has_no_result`), and other tasks' captured results are untouched;
* without it, the first failure turns into `LabError` for that very task (`fail_fast_raises`), the
  rest of the batch is not processed and the loop body never runs again, so no further task is
  started (`raised_stops_yields`, `raised_stops_loop`);
* a failure still completes the task in the scheduler, so its dependents are unblocked exactly as
  for a success (`failure_completes_task`);
* `run_tasks` returns only the requested tasks that have a captured result (`returned_only_captured`).

Whole runs (from the master invariant of `Proofs/InvLoop.lean`):
* `failure_isolated_status` (no hypothesis): with `continue_on_failure` no reachable loop-head state
  has raised, whatever subset of tasks raise or die, and `run_tasks` never raises;
* `failure_isolated_returns` (`Acyclic`, `FuelOK`, `LimitsPos`, `Fair` schedule long enough): it
  terminates by returning;
* `no_start_after_raise`: once `LabError` is raised the trace does not grow any more (no further
  task is started), whatever the rest of the schedule.
Failure-aware reference evaluation (from `ValInv` / `FlagInv` of `Proofs/Inv2*.lean`), hypotheses `RefHypF`
(`Acyclic`, `InstOK`, a choice `obj` of one object per tid), `FuelOK`, `LimitsPos`, fair schedule that is
long enough; the cache pre-state is ARBITRARY (a load returns whatever is stored):
* `refEvalF_spec`: what `refEvalF` is — no value if the worker dies (process backends only), the stored
  value if cached beforehand and not busted, no value if `run()` raises, otherwise `run()` applied to
  the reference values of the task objects in its parameters (a failed one read as `none`);
* `unrelated_tasks_return_reference`: with `continue_on_failure`, whatever subset of tasks raise or
  die, `run_tasks` returns exactly the requested tasks that have a reference value, each with that
  value, in request order; `returned_iff_reference` is the membership form (a failed task, or one that
  lets a failed dependency's `TaskError` propagate, is absent);
* `reference_when_nothing_fails`: the same equation for `continue_on_failure = False` when no planned
  task fails (this is what C01's `returns_reference_values` is a corollary of);
* `every_yield_is_refF`: every outcome handed to the coordinator at any point of any run is the
  reference outcome: `ok v` iff `refEvalF t = some v`, `died` iff the worker dies, `exc` otherwise;
* `store_after_run` / `store_at_loop_head`: the final store, as a map, is the pre-state overridden by
  `(t, refEvalF t)` for exactly the planned tasks that were not cached beforehand (= executed, `Props.C03`), whose type is
  cacheable and that have a reference value; every other key keeps its pre-state entry (or absence).
-/
namespace Lt.Props.C10
open Lt

def failed (o : Outcome) : Prop := o = .exc ∨ o = .died

theorem failure_is_skipped (cfg : Config) (req : List Tid) (rs : RS) (t : Tid) (o : Outcome)
    (ho : failed o) (hc : cfg.contOnFail = true) (s' : TS) (rem : List Tid)
    (hct : completeTask rs.ts t = some (s', rem)) :
    (processYield cfg req rs t o).status = rs.status ∧ (processYield cfg req rs t o).ts = s' := by
  rcases ho with h | h <;> subst h <;> simp [processYield, hct, hc]

theorem failed_task_has_no_result (cfg : Config) (req : List Tid) (rs : RS) (t : Tid) (o : Outcome)
    (ho : failed o) :
    (processYield cfg req rs t o).taskResults = rs.taskResults ∧
    ∀ kv, kv ∈ (processYield cfg req rs t o).results → kv ∈ rs.results := by
  rcases ho with h | h <;> subst h <;> simp only [processYield] <;>
    (split
     · exact ⟨rfl, fun _ h => h⟩
     · refine ⟨rfl, fun kv h => ?_⟩
       simp only at h
       split at h
       · simp only [removeResults, List.mem_filter] at h; exact h.1
       · exact h)

theorem fail_fast_raises (cfg : Config) (req : List Tid) (rs : RS) (t : Tid) (o : Outcome)
    (ho : failed o) (hc : cfg.contOnFail = false) (s' : TS) (rem : List Tid)
    (hct : completeTask rs.ts t = some (s', rem)) :
    (processYield cfg req rs t o).status = .raised (.labError t) := by
  rcases ho with h | h <;> subst h <;> simp [processYield, hct, hc]

theorem raised_stops_yields (cfg : Config) (req : List Tid) (ys : List (Tid × Outcome)) (rs : RS)
    (e : Err) (h : rs.status = .raised e) : processYields cfg req ys rs = rs := by
  cases ys with
  | nil => rfl
  | cons y ys => obtain ⟨t, o⟩ := y; simp [processYields, h]

/-- once the run has raised, the loop body never runs again: no submit, no process start, no wait -/
theorem raised_stops_loop (cfg : Config) (p : Problem) (req : List Tid) (sched : List Choice) (rs : RS)
    (e : Err) (h : rs.status = .raised e) : runLoop cfg p req sched rs = rs := by
  cases sched with
  | nil => rfl
  | cons c cs => simp [runLoop, h]

theorem failure_completes_task (cfg : Config) (req : List Tid) (rs : RS) (t : Tid) (o : Outcome) (v : Val)
    (s' : TS) (rem : List Tid) (hct : completeTask rs.ts t = some (s', rem)) :
    (processYield cfg req rs t o).ts = (processYield cfg req rs t (.ok v)).ts := by
  cases o <;> simp [processYield, hct]

theorem returned_only_captured (req : List Tid) (rs : RS) (r : List (Tid × Val))
    (h : (finish req rs).status = .returned r) (hr : rs.status = .running) :
    ∀ kv ∈ r, kv.1 ∈ req ∧ lookup kv.1 rs.taskResults = some kv.2 := by
  simp only [finish, hr] at h
  split at h
  · simp [hr] at h
  · simp only [Status.returned.injEq] at h
    subst h
    intro kv hkv
    simp only [List.mem_filterMap] at hkv
    obtain ⟨t, ht, hl⟩ := hkv
    cases hlk : lookup t rs.taskResults with
    | none => simp [hlk] at hl
    | some v =>
      simp only [hlk, Option.map_some, Option.some.injEq] at hl
      subst hl
      refine ⟨?_, hlk⟩
      have : ∀ (l : List Nat) (x : Nat), x ∈ dedup l → x ∈ l := by
        intro l
        induction l with
        | nil => intro x hx; simp [dedup] at hx
        | cons a b ih =>
          intro x hx
          simp only [dedup, List.mem_cons, List.mem_filter] at hx
          rcases hx with h1 | h1
          · subst h1; exact List.mem_cons_self
          · exact List.mem_cons_of_mem _ (ih x h1.1)
      exact this _ _ ht

def exP : Problem where
  tidOf := fun i => i
  children := fun _ => []
  requested := [0, 1]
  ty := fun _ => 0
  maxPar := fun _ => none
  cacheable := fun _ => true
  fails := fun t => t = 0
  dies := fun _ => false
  behave := fun t _ => some (t + 10)

example : (run { backend := .fork, maxWorkers := 2, contOnFail := true, bust := false } exP [] 3
            [⟨fun _ => true⟩, ⟨fun _ => true⟩]).status = .returned [(1, 11)] ∧
          (run { backend := .fork, maxWorkers := 2, contOnFail := false, bust := false } exP [] 3
            [⟨fun _ => true⟩, ⟨fun _ => true⟩]).status = .raised (.labError 0) := by decide

/-! ## whole runs -/

/-- with `continue_on_failure` the coordinator never raises: every loop-head state is running and
    the run ends running-out-of-schedule or returned -/
theorem failure_isolated_status (cfg : Config) (p : Problem) (store : Store) (fuel : Nat) (sched : List Choice)
    (hcf : cfg.contOnFail = true) :
    (runLoop cfg p (reqTids p) sched (initRS cfg p store fuel)).status = .running ∧
    ∀ e, (run cfg p store fuel sched).status ≠ .raised e := by
  have h1 := loopHead_status_cof cfg p store fuel sched hcf
  refine ⟨h1, ?_⟩
  intro e he
  have h2 : (run cfg p store fuel sched).status = (finish (reqTids p) (loopHead cfg p store fuel sched)).status := rfl
  rw [h2] at he
  simp only [finish, h1] at he
  split at he <;> simp [h1] at he

theorem failure_isolated_returns (cfg : Config) (p : Problem) (store : Store) (fuel : Nat) (sched : List Choice)
    (hcf : cfg.contOnFail = true) (hA : Acyclic p) (hF : FuelOK p fuel) (hL : LimitsPos cfg p)
    (hfair : Fair sched) (hlen : (plan cfg p store fuel).pending.length + 1 ≤ sched.length) :
    ∃ r, (run cfg p store fuel sched).status = .returned r := by
  rcases run_status_cases cfg p store fuel sched with h | h | ⟨t, h⟩
  · exact absurd h (run_terminates cfg p store fuel sched hA hF hL hfair hlen)
  · exact h
  · exact absurd h ((failure_isolated_status cfg p store fuel sched hcf).2 _)

/-- after a raise the rest of the schedule changes nothing: no further submit, start or yield -/
theorem no_start_after_raise (cfg : Config) (p : Problem) (store : Store) (fuel : Nat) (sched more : List Choice)
    (e : Err) (h : (runLoop cfg p (reqTids p) sched (initRS cfg p store fuel)).status = .raised e) :
    runLoop cfg p (reqTids p) (sched ++ more) (initRS cfg p store fuel)
      = runLoop cfg p (reqTids p) sched (initRS cfg p store fuel) := by
  have key : ∀ (s : List Choice) (rs : RS), (runLoop cfg p (reqTids p) s rs).status = .raised e →
      runLoop cfg p (reqTids p) (s ++ more) rs = runLoop cfg p (reqTids p) s rs := by
    intro s
    induction s with
    | nil =>
      intro rs hrs
      simp only [runLoop] at hrs
      exact raised_stops_loop cfg p _ more rs e hrs
    | cons c cs ih =>
      intro rs hrs
      simp only [List.cons_append, runLoop] at hrs ⊢
      split
      · next hrun =>
        simp only [hrun] at hrs
        split
        · next hl => simp only [hl, if_true] at hrs; exact ih _ hrs
        · next hl =>
          simp only [hl] at hrs
          have : rs.status = .raised e := by simpa using hrs
          rw [hrun] at this
      · rfl
  exact key sched _ h

/-- non-vacuity: 2 dies and 1 raises in the diamond; with `continue_on_failure` the run returns
    (3 handles the missing values itself); without it the first failure raises `LabError` -/
example :
    let pr : Problem := { invExP with fails := fun t => t == 1, dies := fun t => t == 2 }
    (run invExCfg pr [] 4 (List.replicate 5 chooseAll)).status = .returned [(3, 3014)] ∧
    (run { invExCfg with contOnFail := false } pr [] 4 (List.replicate 5 chooseAll)).status
      = .raised (.labError 1) := by decide

/-- the hypotheses of `failure_isolated_returns` are satisfiable together -/
example (be : Backend) :
    ∃ r, (run { invExCfg with backend := be } { invExP with fails := fun t => t == 1, dies := fun t => t == 2 }
      [] 4 (List.replicate 5 chooseAll)).status = .returned r :=
  failure_isolated_returns _ _ [] 4 _ rfl invExP_acyclic invExP_fuel (invEx_limits be 2 (by decide))
    (fair_replicate 5 chooseAll rfl) (by cases be <;> decide)

/-! ## failure-aware reference evaluation -/

/-- what `refEvalF` is, for a task that has an object -/
theorem refEvalF_spec (cfg : Config) (p : Problem) (store : Store) (obj : Tid → Iid) (H : RefHypF p obj) (i : Iid) :
    refEvalF cfg p store obj (p.tidOf i) =
      if diesIn cfg p (p.tidOf i) then none
      else if useCache cfg p store (p.tidOf i) then lookup (p.tidOf i) store
      else if p.fails (p.tidOf i) then none
      else p.behave (p.tidOf i)
        (((p.children (obj (p.tidOf i))).map p.tidOf).map (refEvalF cfg p store obj)) :=
  refEvalF_unfold cfg p store obj H.acyc H.objOK i

/-- a worker can die only under a process backend -/
theorem diesIn_spec (cfg : Config) (p : Problem) (t : Tid) :
    diesIn cfg p t = true ↔ (cfg.backend ≠ .serial ∧ p.dies t = true) := by
  simp only [diesIn]
  split <;> simp_all

/-- the reference outcome: `died` iff the worker dies, else `ok` of the reference value, else `exc` -/
theorem refOutcome_spec (cfg : Config) (p : Problem) (store : Store) (obj : Tid → Iid) (t : Tid) :
    (∀ v, refOutcome cfg p store obj t = .ok v ↔ refEvalF cfg p store obj t = some v) ∧
    (refOutcome cfg p store obj t = .died ↔ diesIn cfg p t = true) ∧
    (refOutcome cfg p store obj t = .exc ↔
      (diesIn cfg p t = false ∧ refEvalF cfg p store obj t = none)) := by
  refine ⟨refOutcome_ok_iff cfg p store obj t, ?_, ?_⟩
  · simp only [refOutcome]
    cases diesIn cfg p t with
    | true => simp
    | false => cases refEvalF cfg p store obj t <;> simp
  · simp only [refOutcome]
    cases diesIn cfg p t with
    | true => simp
    | false => cases refEvalF cfg p store obj t <;> simp

/-- with `continue_on_failure`, whatever fails, the run returns exactly the requested tasks that have
    a reference value, with that value, in request order. The cache pre-state is arbitrary. -/
theorem unrelated_tasks_return_reference (cfg : Config) (p : Problem) (store : Store) (fuel : Nat)
    (sched : List Choice) (obj : Tid → Iid) (H : RefHypF p obj) (hcf : cfg.contOnFail = true)
    (hF : FuelOK p fuel) (hL : LimitsPos cfg p) (hfair : Fair sched)
    (hlen : (plan cfg p store fuel).pending.length + 1 ≤ sched.length) :
    (run cfg p store fuel sched).status =
      .returned ((dedup (reqTids p)).filterMap
        (fun t => (refEvalF cfg p store obj t).map (fun v => (t, v)))) :=
  run_returns_refF cfg p store fuel sched obj H (Or.inl hcf) hF hL hfair hlen

/-- membership form: `(t, v)` is returned iff `t` was requested and `v` is its reference value -/
theorem returned_iff_reference (cfg : Config) (p : Problem) (store : Store) (fuel : Nat)
    (sched : List Choice) (obj : Tid → Iid) (H : RefHypF p obj) (hcf : cfg.contOnFail = true)
    (hF : FuelOK p fuel) (hL : LimitsPos cfg p) (hfair : Fair sched)
    (hlen : (plan cfg p store fuel).pending.length + 1 ≤ sched.length) :
    ∃ r, (run cfg p store fuel sched).status = .returned r ∧
      ∀ t v, (t, v) ∈ r ↔ (t ∈ reqTids p ∧ refEvalF cfg p store obj t = some v) := by
  refine ⟨_, unrelated_tasks_return_reference cfg p store fuel sched obj H hcf hF hL hfair hlen, ?_⟩
  intro t v
  simp only [List.mem_filterMap, mem_dedup]
  constructor
  · rintro ⟨a, ha, h⟩
    cases hv : refEvalF cfg p store obj a with
    | none => simp [hv] at h
    | some w =>
      simp only [hv, Option.map_some, Option.some.injEq, Prod.mk.injEq] at h
      obtain ⟨h1, h2⟩ := h
      subst h1; subst h2
      exact ⟨ha, hv⟩
  · rintro ⟨ht, hv⟩
    exact ⟨t, ht, by simp [hv]⟩

/-- the same equation without `continue_on_failure`, when no planned task fails -/
theorem reference_when_nothing_fails (cfg : Config) (p : Problem) (store : Store) (fuel : Nat)
    (sched : List Choice) (obj : Tid → Iid) (H : RefHypF p obj)
    (hnf : ∀ t ∈ (plan cfg p store fuel).pending, (refEvalF cfg p store obj t).isSome)
    (hF : FuelOK p fuel) (hL : LimitsPos cfg p) (hfair : Fair sched)
    (hlen : (plan cfg p store fuel).pending.length + 1 ≤ sched.length) :
    (run cfg p store fuel sched).status =
      .returned ((dedup (reqTids p)).filterMap
        (fun t => (refEvalF cfg p store obj t).map (fun v => (t, v)))) :=
  run_returns_refF cfg p store fuel sched obj H (Or.inr hnf) hF hL hfair hlen

/-- every outcome handed to the coordinator, at any point of any run (no fairness needed), is the
    reference outcome of its task -/
theorem every_yield_is_refF (cfg : Config) (p : Problem) (store : Store) (fuel : Nat)
    (sched : List Choice) (obj : Tid → Iid) (H : RefHypF p obj) (hcf : cfg.contOnFail = true)
    (t : Tid) (o : Outcome) (h : Ev.yield t o ∈ (run cfg p store fuel sched).trace) :
    o = refOutcome cfg p store obj t ∧ ∀ v, o = .ok v ↔ refEvalF cfg p store obj t = some v := by
  rw [run_trace] at h
  have := (loopHead_val cfg p store fuel sched obj H (Or.inl hcf)).yOk t o h
  refine ⟨this, fun v => ?_⟩
  rw [this]
  exact refOutcome_ok_iff cfg p store obj t v

/-- what `storeAfter` is: an executed, successful task of a cacheable type saved its value;
    everything else leaves the pre-state entry (or its absence) -/
theorem storeAfter_spec (cfg : Config) (p : Problem) (store : Store) (obj : Tid → Iid) (t : Tid) :
    (∀ v, useCache cfg p store t = false → p.cacheable (p.ty t) = true →
      refEvalF cfg p store obj t = some v → storeAfter cfg p store obj t = some v) ∧
    ((useCache cfg p store t = true ∨ p.cacheable (p.ty t) = false ∨ refEvalF cfg p store obj t = none) →
      storeAfter cfg p store obj t = lookup t store) := by
  constructor
  · intro v h1 h2 h3
    simp [storeAfter, h1, h2, h3]
  · intro h
    simp only [storeAfter]
    split
    · next hc =>
      rcases h with h | h | h
      · rw [hc.1] at h; cases h
      · rw [hc.2] at h; cases h
      · rw [h]
    · rfl

/-- the store at every loop head: pre-state, overridden by `storeAfter` for the tasks delivered so far -/
theorem store_at_loop_head (cfg : Config) (p : Problem) (store : Store) (fuel : Nat) (sched : List Choice)
    (obj : Tid → Iid) (H : RefHypF p obj) (hcf : cfg.contOnFail = true) (t : Tid) :
    lookup t (runLoop cfg p (reqTids p) sched (initRS cfg p store fuel)).store =
      if t ∈ yieldedOf (runLoop cfg p (reqTids p) sched (initRS cfg p store fuel)).trace
      then storeAfter cfg p store obj t else lookup t store :=
  loopHead_store cfg p store fuel sched obj H (Or.inl hcf) t

/-- the final store, as a map: the pre-state overridden by `(t, refEvalF t)` for exactly the planned
    tasks that were not cached beforehand, are cacheable and have a reference value; nothing else
    changes (in particular no entry for a failed task, none for a key outside the plan) -/
theorem store_after_run (cfg : Config) (p : Problem) (store : Store) (fuel : Nat)
    (sched : List Choice) (obj : Tid → Iid) (H : RefHypF p obj) (hcf : cfg.contOnFail = true)
    (hF : FuelOK p fuel) (hL : LimitsPos cfg p) (hfair : Fair sched)
    (hlen : (plan cfg p store fuel).pending.length + 1 ≤ sched.length) (t : Tid) :
    lookup t (run cfg p store fuel sched).store =
      if t ∈ (plan cfg p store fuel).pending then storeAfter cfg p store obj t else lookup t store := by
  have hr := loopHead_val cfg p store fuel sched obj H (Or.inl hcf)
  obtain ⟨_, hall⟩ := loopHead_all_yielded cfg p store fuel sched H.acyc hF hL hfair hlen hr.run
  rw [run_store, loopHead_store cfg p store fuel sched obj H (Or.inl hcf) t]
  by_cases h : t ∈ (plan cfg p store fuel).pending
  · rw [if_pos h, if_pos ((hall t).mp h)]
  · rw [if_neg h, if_neg (fun h' => h ((hall t).mpr h'))]

/-- the diamond with the duplicated object in which 1 raises and 2's worker dies -/
def failP : Problem := { invExP with fails := fun t => t == 1, dies := fun t => t == 2 }

theorem failP_refHypF : RefHypF failP id where
  acyc := invExP_acyclic
  inst := by
    intro i j h
    simp only [failP, invExP] at h ⊢
    by_cases h4 : i = 4 <;> by_cases h4' : j = 4 <;> simp_all <;> grind
  objOK := by
    intro i
    simp only [failP, invExP, id]
    split <;> simp_all

/-- non-vacuity, concrete: an UNSOUND warm cache (0 ↦ 5; the task would compute 0), 1 raises, 2 dies
    (fork) or does not (serial, no worker process): 3 reads the failed ones as missing and is the only
    requested task with a value; the store gains exactly the executed successful tasks -/
example :
    (run invExCfg failP [(0, 5)] 4 (List.replicate 5 chooseAll)).status = .returned [(3, 3014)] ∧
    (dedup (reqTids failP)).filterMap (fun t => (refEvalF invExCfg failP [(0, 5)] id t).map (fun v => (t, v)))
      = [(3, 3014)] ∧
    (run invExCfg failP [(0, 5)] 4 (List.replicate 5 chooseAll)).store = [(3, 3014), (0, 5)] ∧
    [0, 1, 2, 3].map (storeAfter invExCfg failP [(0, 5)] id) = [some 5, none, none, some 3014] ∧
    (run { invExCfg with backend := .serial } failP [(0, 5)] 4 (List.replicate 5 chooseAll)).status
      = .returned [(3, 5012)] ∧
    (dedup (reqTids failP)).filterMap
      (fun t => (refEvalF { invExCfg with backend := .serial } failP [(0, 5)] id t).map (fun v => (t, v)))
      = [(3, 5012)] ∧
    Ev.yield 2 .died ∈ (run invExCfg failP [(0, 5)] 4 (List.replicate 5 chooseAll)).trace ∧
    refOutcome invExCfg failP [(0, 5)] id 2 = .died ∧ refOutcome invExCfg failP [(0, 5)] id 1 = .exc := by
  decide

/-- the hypotheses of `unrelated_tasks_return_reference` / `store_after_run` are satisfiable together -/
example (be : Backend) :
    (run { invExCfg with backend := be } failP [(0, 5)] 4 (List.replicate 5 chooseAll)).status =
      .returned ((dedup (reqTids failP)).filterMap
        (fun t => (refEvalF { invExCfg with backend := be } failP [(0, 5)] id t).map (fun v => (t, v)))) :=
  unrelated_tasks_return_reference _ failP [(0, 5)] 4 _ id failP_refHypF rfl invExP_fuel
    (invEx_limits be 2 (by decide)) (fair_replicate 5 chooseAll rfl) (by cases be <;> decide)

/-! ## fail-fast (`continue_on_failure = False`), whole runs

From `FFInv` of `Proofs/Inv2FailFast.lean`: the value invariant carried through the loop for an
ARBITRARY configuration, with arbitrary raising / dying tasks and an arbitrary cache pre-state. No
fairness, no `LimitsPos`, no bound on the schedule: the statements hold for every `sched`. -/

/-- the fuel hypothesis of the theorems below is implied by `FuelOK` -/
theorem fuelOK_pos_or_nil {p : Problem} {fuel : Nat} (hF : FuelOK p fuel) : 0 < fuel ∨ p.requested = [] := by
  cases hreq : p.requested with
  | nil => exact Or.inr rfl
  | cons i is => exact Or.inl (Nat.lt_of_le_of_lt (Nat.zero_le _) (hF i (by rw [hreq]; exact List.mem_cons_self)))

/-- a failed reference outcome means: no reference value -/
theorem failed_refOutcome_none (cfg : Config) (p : Problem) (store : Store) (obj : Tid → Iid) (t : Tid)
    (h : failed (refOutcome cfg p store obj t)) : refEvalF cfg p store obj t = none := by
  cases hv : refEvalF cfg p store obj t with
  | none => rfl
  | some v =>
    have := (refOutcome_ok_iff cfg p store obj t v).mpr hv
    rw [this] at h
    rcases h with h | h <;> cases h

/-- (A) If `run_tasks` raises `LabError` for task `t`, then `continue_on_failure` was off and `t` is
    the FIRST failure handed to the coordinator: the trace ENDS with the yield `(t, o)` (after the raise
    nothing is submitted, started or yielded), `o` is a failure (`exc` or `died`) and is the reference
    outcome of `t`, so `t` has no value by the plain sequential reference semantics (it raises, its
    worker dies, or it lets a failed dependency's `TaskError` propagate); every yield before it belongs
    to another task, is a success `ok v`, and `v` is that task's reference value. -/
theorem labError_is_first_reference_failure (cfg : Config) (p : Problem) (store : Store) (fuel : Nat)
    (sched : List Choice) (obj : Tid → Iid) (H : RefHypF p obj) (t : Tid)
    (h : (run cfg p store fuel sched).status = .raised (.labError t)) :
    cfg.contOnFail = false ∧
    ∃ o pre, (run cfg p store fuel sched).trace = pre ++ [Ev.yield t o] ∧
      Ev.yield t o ∈ (run cfg p store fuel sched).trace ∧
      failed o ∧ o = refOutcome cfg p store obj t ∧ refEvalF cfg p store obj t = none ∧
      ∀ t' o', Ev.yield t' o' ∈ pre →
        t' ≠ t ∧ o' = refOutcome cfg p store obj t' ∧
        ∃ v, o' = .ok v ∧ refEvalF cfg p store obj t' = some v := by
  have hl := (run_raised_iff_loopHead cfg p store fuel sched _).mp h
  obtain ⟨hcf, o, pre, htr, hfail, ho, hpre, hnot⟩ := loopHead_raised cfg p store fuel sched obj H t hl
  refine ⟨hcf, o, pre, ?_, ?_, hfail, ho, ?_, ?_⟩
  · rw [run_trace]; exact htr
  · rw [run_trace, htr]; simp
  · apply failed_refOutcome_none
    rw [← ho]; exact hfail
  · intro t' o' h'
    obtain ⟨h1, v, hv⟩ := hpre t' o' h'
    refine ⟨?_, h1, v, hv, ?_⟩
    · intro heq; subst heq; exact hnot o' h'
    · rw [← refOutcome_ok_iff, ← h1]; exact hv

/-- (A, second part) `every_yield_is_refF` for EVERY configuration: every outcome handed to the
    coordinator at any point of any run, fail-fast or not, is the reference outcome of its task -/
theorem every_yield_is_refF_any_config (cfg : Config) (p : Problem) (store : Store) (fuel : Nat)
    (sched : List Choice) (obj : Tid → Iid) (H : RefHypF p obj)
    (t : Tid) (o : Outcome) (h : Ev.yield t o ∈ (run cfg p store fuel sched).trace) :
    o = refOutcome cfg p store obj t ∧ ∀ v, o = .ok v ↔ refEvalF cfg p store obj t = some v := by
  rw [run_trace] at h
  have := loopHead_yOk cfg p store fuel sched obj H t o h
  refine ⟨this, fun v => ?_⟩
  rw [this]
  exact refOutcome_ok_iff cfg p store obj t v

/-- while a fail-fast coordinator has not raised, no failure has been handed to it -/
theorem fail_fast_running_no_failure (cfg : Config) (p : Problem) (store : Store) (fuel : Nat)
    (sched : List Choice) (obj : Tid → Iid) (H : RefHypF p obj) (hcf : cfg.contOnFail = false)
    (hrun : (loopHead cfg p store fuel sched).status = .running)
    (t : Tid) (o : Outcome) (h : Ev.yield t o ∈ (loopHead cfg p store fuel sched).trace) :
    ∃ v, o = .ok v ∧ refEvalF cfg p store obj t = some v := by
  obtain ⟨hr, ha⟩ := loopHead_running_val cfg p store fuel sched obj H hrun
  rcases ha with ha | ha
  · rw [hcf] at ha; cases ha
  · obtain ⟨v, hv⟩ := ha t o h
    refine ⟨v, hv, ?_⟩
    rw [← refOutcome_ok_iff, ← hr.yOk t o h]; exact hv

/-- (B) `run_tasks` never raises `KeyError` (any configuration; restated from the master invariant,
    cf. `Props.C11.no_keyerror`) -/
theorem fail_fast_never_keyerror (cfg : Config) (p : Problem) (store : Store) (fuel : Nat)
    (sched : List Choice) : (run cfg p store fuel sched).status ≠ .raised .keyError := by
  rcases run_status_cases cfg p store fuel sched with h | ⟨r, h⟩ | ⟨t, h⟩ <;> rw [h] <;> simp

/-- (B) whenever `run_tasks` returns — any configuration, any schedule, no fairness — it returns
    exactly the requested tasks that have a reference value, with that value, in request order, and
    every planned task was handed to the coordinator (`0 < fuel ∨ requested = []` follows from
    `FuelOK`, see `fuelOK_pos_or_nil`) -/
theorem returned_is_reference (cfg : Config) (p : Problem) (store : Store) (fuel : Nat)
    (sched : List Choice) (obj : Tid → Iid) (H : RefHypF p obj) (hfuel : 0 < fuel ∨ p.requested = [])
    (r : List (Tid × Val)) (h : (run cfg p store fuel sched).status = .returned r) :
    r = (dedup (reqTids p)).filterMap (fun t => (refEvalF cfg p store obj t).map (fun v => (t, v))) ∧
    ∀ t ∈ (plan cfg p store fuel).pending, ∃ o, Ev.yield t o ∈ (run cfg p store fuel sched).trace := by
  obtain ⟨_, hall, hr⟩ := run_returned_refF cfg p store fuel sched obj H hfuel r h
  refine ⟨hr, fun t ht => ?_⟩
  rw [run_trace, ← mem_yieldedOf]
  exact (hall t).mp ht

/-- (B) if a fail-fast `run_tasks` returns, then no failure was ever handed to the coordinator, in
    fact no planned task fails at all by the reference semantics (`NoFailure`), and the result is the
    reference result -/
theorem fail_fast_returned_no_failure (cfg : Config) (p : Problem) (store : Store) (fuel : Nat)
    (sched : List Choice) (obj : Tid → Iid) (H : RefHypF p obj) (hcf : cfg.contOnFail = false)
    (hfuel : 0 < fuel ∨ p.requested = [])
    (r : List (Tid × Val)) (h : (run cfg p store fuel sched).status = .returned r) :
    (∀ t o, Ev.yield t o ∈ (run cfg p store fuel sched).trace →
      ∃ v, o = .ok v ∧ refEvalF cfg p store obj t = some v) ∧
    NoFailure cfg p store obj fuel ∧
    r = (dedup (reqTids p)).filterMap (fun t => (refEvalF cfg p store obj t).map (fun v => (t, v))) := by
  obtain ⟨hrun, hall, hr⟩ := run_returned_refF cfg p store fuel sched obj H hfuel r h
  have hno : ∀ t o, Ev.yield t o ∈ (run cfg p store fuel sched).trace →
      ∃ v, o = .ok v ∧ refEvalF cfg p store obj t = some v := by
    intro t o ho
    rw [run_trace] at ho
    exact fail_fast_running_no_failure cfg p store fuel sched obj H hcf hrun t o ho
  refine ⟨hno, ?_, hr⟩
  intro t ht
  obtain ⟨o, ho⟩ := (mem_yieldedOf _ _).mp ((hall t).mp ht)
  rw [← run_trace] at ho
  obtain ⟨v, _, hv⟩ := hno t o ho
  rw [hv]; rfl

/-- (B) the three ways a fail-fast run can end (or not yet have ended: `running` = the schedule ran
    out), with what each means -/
theorem fail_fast_status_cases (cfg : Config) (p : Problem) (store : Store) (fuel : Nat)
    (sched : List Choice) (obj : Tid → Iid) (H : RefHypF p obj) (hcf : cfg.contOnFail = false)
    (hfuel : 0 < fuel ∨ p.requested = []) :
    ((run cfg p store fuel sched).status = .running ∧
      ∀ t o, Ev.yield t o ∈ (run cfg p store fuel sched).trace →
        ∃ v, o = .ok v ∧ refEvalF cfg p store obj t = some v) ∨
    (∃ r, (run cfg p store fuel sched).status = .returned r ∧
      (∀ t o, Ev.yield t o ∈ (run cfg p store fuel sched).trace →
        ∃ v, o = .ok v ∧ refEvalF cfg p store obj t = some v) ∧
      NoFailure cfg p store obj fuel ∧
      r = (dedup (reqTids p)).filterMap (fun t => (refEvalF cfg p store obj t).map (fun v => (t, v)))) ∨
    (∃ t, (run cfg p store fuel sched).status = .raised (.labError t) ∧
      refEvalF cfg p store obj t = none ∧
      ∃ o pre, (run cfg p store fuel sched).trace = pre ++ [Ev.yield t o] ∧ failed o ∧
        ∀ t' o', Ev.yield t' o' ∈ pre → ∃ v, o' = .ok v ∧ refEvalF cfg p store obj t' = some v) := by
  rcases run_status_cases cfg p store fuel sched with h | ⟨r, h⟩ | ⟨t, h⟩
  · left
    refine ⟨h, ?_⟩
    have hfin : (run cfg p store fuel sched).status =
        (finish (reqTids p) (loopHead cfg p store fuel sched)).status := rfl
    have hrun : (loopHead cfg p store fuel sched).status = .running := by
      rcases finish_status_cases (reqTids p) (loopHead cfg p store fuel sched) with h' | ⟨h', _⟩
      · rw [← h', ← hfin]; exact h
      · exact h'
    intro t o ho
    rw [run_trace] at ho
    exact fail_fast_running_no_failure cfg p store fuel sched obj H hcf hrun t o ho
  · right; left
    exact ⟨r, h, fail_fast_returned_no_failure cfg p store fuel sched obj H hcf hfuel r h⟩
  · right; right
    obtain ⟨_, o, pre, htr, _, hfail, _, hnone, hpre⟩ :=
      labError_is_first_reference_failure cfg p store fuel sched obj H t h
    refine ⟨t, h, hnone, o, pre, htr, hfail, ?_⟩
    intro t' o' h'
    obtain ⟨_, _, v, hv⟩ := hpre t' o' h'
    exact ⟨v, hv⟩

/-- three independent tasks: 0 raises, the worker of 1 dies, 2 succeeds -/
def ffP : Problem where
  tidOf := fun i => i
  children := fun _ => []
  requested := [0, 1, 2]
  ty := fun _ => 0
  maxPar := fun _ => none
  cacheable := fun _ => true
  fails := fun t => t == 0
  dies := fun t => t == 1
  behave := fun t _ => some (t + 10)

def ffCfg : Config := { backend := .fork, maxWorkers := 3, contOnFail := false, bust := false }

theorem ffP_refHypF : RefHypF ffP id where
  acyc := by intro i c h; simp [ffP] at h
  inst := by intro i j _; rfl
  objOK := by intro i; rfl

/-- the yields of a trace, in order -/
def yieldsOf (tr : List Ev) : List (Tid × Outcome) :=
  tr.filterMap (fun e => match e with | .yield t o => some (t, o) | _ => none)

/-- (C) non-vacuity, concrete: two failing tasks, the schedule decides which one is reported. All
    three workers run at once; if worker 0's outcome becomes visible first the run raises
    `LabError 0` (caused by the task's own exception), if worker 1's death does, `LabError 1`; if the
    successful task 2 is delivered first and then both failures at once, its yield `ok 12` precedes
    the failing yield of 0 (first in `future_to_task` order) and 1 is never handed over. In every case
    the failing yield is the last event of the trace and is the task's reference outcome. -/
example :
    (run ffCfg ffP [] 3 [⟨fun i => i == 0⟩, chooseAll]).status = .raised (.labError 0) ∧
    (run ffCfg ffP [] 3 [⟨fun i => i == 1⟩, chooseAll]).status = .raised (.labError 1) ∧
    (run ffCfg ffP [] 3 [⟨fun i => i == 2⟩, chooseAll, chooseAll]).status = .raised (.labError 0) ∧
    yieldsOf (run ffCfg ffP [] 3 [⟨fun i => i == 0⟩, chooseAll]).trace = [(0, .exc)] ∧
    yieldsOf (run ffCfg ffP [] 3 [⟨fun i => i == 1⟩, chooseAll]).trace = [(1, .died)] ∧
    yieldsOf (run ffCfg ffP [] 3 [⟨fun i => i == 2⟩, chooseAll, chooseAll]).trace = [(2, .ok 12), (0, .exc)] ∧
    (run ffCfg ffP [] 3 [⟨fun i => i == 0⟩, chooseAll]).trace.getLast? = some (Ev.yield 0 .exc) ∧
    (run ffCfg ffP [] 3 [⟨fun i => i == 1⟩, chooseAll]).trace.getLast? = some (Ev.yield 1 .died) ∧
    (run ffCfg ffP [] 3 [⟨fun i => i == 2⟩, chooseAll, chooseAll]).trace.getLast? = some (Ev.yield 0 .exc) ∧
    [0, 1, 2].map (refOutcome ffCfg ffP [] id) = [.exc, .died, .ok 12] ∧
    [0, 1, 2].map (refEvalF ffCfg ffP [] id) = [none, none, some 12] ∧
    -- with continue_on_failure the same schedules return the unrelated task's value
    (run { ffCfg with contOnFail := true } ffP [] 3 [⟨fun i => i == 1⟩, chooseAll, chooseAll]).status
      = .returned [(2, 12)] := by
  decide

/-- the hypotheses of `labError_is_first_reference_failure` / `fail_fast_status_cases` are satisfiable
    together, and the conclusion for both reported tasks -/
example :
    (∃ pre, (run ffCfg ffP [] 3 [⟨fun i => i == 0⟩, chooseAll]).trace = pre ++ [Ev.yield 0 .exc]) ∧
    (∃ pre, (run ffCfg ffP [] 3 [⟨fun i => i == 1⟩, chooseAll]).trace = pre ++ [Ev.yield 1 .died]) := by
  constructor
  · obtain ⟨_, o, pre, htr, _, _, ho, _⟩ :=
      labError_is_first_reference_failure ffCfg ffP [] 3 [⟨fun i => i == 0⟩, chooseAll] id ffP_refHypF 0 (by decide)
    have : refOutcome ffCfg ffP [] id 0 = .exc := by decide
    rw [this] at ho; subst ho
    exact ⟨pre, htr⟩
  · obtain ⟨_, o, pre, htr, _, _, ho, _⟩ :=
      labError_is_first_reference_failure ffCfg ffP [] 3 [⟨fun i => i == 1⟩, chooseAll] id ffP_refHypF 1 (by decide)
    have : refOutcome ffCfg ffP [] id 1 = .died := by decide
    rw [this] at ho; subst ho
    exact ⟨pre, htr⟩

/-- and of `fail_fast_returned_no_failure` (`ffP` with no raising and no dying task: the fail-fast run returns, so `NoFailure`) -/
example :
    let pr : Problem := { ffP with fails := fun _ => false, dies := fun _ => false }
    NoFailure ffCfg pr [] id 3 :=
  (fail_fast_returned_no_failure ffCfg _ [] 3 [chooseAll, chooseAll] id
    ⟨by intro i c h; simp [ffP] at h, by intro i j _; rfl, by intro i; rfl⟩ rfl (Or.inl (by decide))
    [(0, 10), (1, 11), (2, 12)] (by decide)).2.1

end Lt.Props.C10
