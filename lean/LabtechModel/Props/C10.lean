import LabtechModel.Proofs.Submit
import LabtechModel.Proofs.InvMain
/-!
# C10 — One task's failure never disturbs unrelated tasks

Proved here, for every state, task and failing outcome (raise or death):
* with `continue_on_failure`, handling a failed task never raises (`failure_is_skipped`): the run
  carries on; the failed task stores no result and nothing is captured for it
  (`failed_task_has_no_result`), and other tasks' captured results are untouched;
* without it, the first failure turns into `LabError` for that very task (`fail_fast_raises`), the
  rest of the batch is not processed and the loop body never runs again, so no further task is
  started (`raised_stops_yields`, `raised_stops_loop`);
* a failure still completes the task in the scheduler, so its dependents are unblocked exactly as
  for a success (`failure_completes_task`);
* `run_tasks` returns only the requested tasks that have a captured result (`returned_only_captured`).

Whole runs (from the master invariant of `Proofs/InvLoop.lean`):
* `failure_isolated_status` (no hypothesis): with `continue_on_failure` no reachable loop-head state
  has raised, whatever subset of tasks raise or die, and `run_tasks` never raises;
* `failure_isolated_returns` (`Acyclic`, `FuelOK`, `LimitsPos`, `Fair` schedule long enough): it
  terminates by returning;
* `no_start_after_raise`: once `LabError` is raised the trace does not grow any more (no further
  task is started), whatever the rest of the schedule.
Not covered at whole-run level: "executes every task that does not depend on a failed one and returns its value"
(needs the reference-evaluation theorem of C01).
-/
namespace Lt.Props.C10
open Lt

def failed (o : Outcome) : Prop := o = .exc ∨ o = .died

theorem failure_is_skipped (cfg : Config) (req : List Tid) (rs : RS) (t : Tid) (o : Outcome)
    (ho : failed o) (hc : cfg.contOnFail = true) (s' : TS) (rem : List Tid)
    (hct : completeTask rs.ts t = some (s', rem)) :
    (processYield cfg req rs t o).status = rs.status ∧ (processYield cfg req rs t o).ts = s' := by
  rcases ho with h | h <;> subst h <;> simp [processYield, hct, hc]

theorem failed_task_has_no_result (cfg : Config) (req : List Tid) (rs : RS) (t : Tid) (o : Outcome)
    (ho : failed o) :
    (processYield cfg req rs t o).taskResults = rs.taskResults ∧
    ∀ kv, kv ∈ (processYield cfg req rs t o).results → kv ∈ rs.results := by
  rcases ho with h | h <;> subst h <;> simp only [processYield] <;>
    (split
     · exact ⟨rfl, fun _ h => h⟩
     · refine ⟨rfl, fun kv h => ?_⟩
       simp only at h
       split at h
       · simp only [removeResults, List.mem_filter] at h; exact h.1
       · exact h)

theorem fail_fast_raises (cfg : Config) (req : List Tid) (rs : RS) (t : Tid) (o : Outcome)
    (ho : failed o) (hc : cfg.contOnFail = false) (s' : TS) (rem : List Tid)
    (hct : completeTask rs.ts t = some (s', rem)) :
    (processYield cfg req rs t o).status = .raised (.labError t) := by
  rcases ho with h | h <;> subst h <;> simp [processYield, hct, hc]

theorem raised_stops_yields (cfg : Config) (req : List Tid) (ys : List (Tid × Outcome)) (rs : RS)
    (e : Err) (h : rs.status = .raised e) : processYields cfg req ys rs = rs := by
  cases ys with
  | nil => rfl
  | cons y ys => obtain ⟨t, o⟩ := y; simp [processYields, h]

/-- once the run has raised, the loop body never runs again: no submit, no process start, no wait -/
theorem raised_stops_loop (cfg : Config) (p : Problem) (req : List Tid) (sched : List Choice) (rs : RS)
    (e : Err) (h : rs.status = .raised e) : runLoop cfg p req sched rs = rs := by
  cases sched with
  | nil => rfl
  | cons c cs => simp [runLoop, h]

theorem failure_completes_task (cfg : Config) (req : List Tid) (rs : RS) (t : Tid) (o : Outcome) (v : Val)
    (s' : TS) (rem : List Tid) (hct : completeTask rs.ts t = some (s', rem)) :
    (processYield cfg req rs t o).ts = (processYield cfg req rs t (.ok v)).ts := by
  cases o <;> simp [processYield, hct]

theorem returned_only_captured (req : List Tid) (rs : RS) (r : List (Tid × Val))
    (h : (finish req rs).status = .returned r) (hr : rs.status = .running) :
    ∀ kv ∈ r, kv.1 ∈ req ∧ lookup kv.1 rs.taskResults = some kv.2 := by
  simp only [finish, hr] at h
  split at h
  · simp [hr] at h
  · simp only [Status.returned.injEq] at h
    subst h
    intro kv hkv
    simp only [List.mem_filterMap] at hkv
    obtain ⟨t, ht, hl⟩ := hkv
    cases hlk : lookup t rs.taskResults with
    | none => simp [hlk] at hl
    | some v =>
      simp only [hlk, Option.map_some, Option.some.injEq] at hl
      subst hl
      refine ⟨?_, hlk⟩
      have : ∀ (l : List Nat) (x : Nat), x ∈ dedup l → x ∈ l := by
        intro l
        induction l with
        | nil => intro x hx; simp [dedup] at hx
        | cons a b ih =>
          intro x hx
          simp only [dedup, List.mem_cons, List.mem_filter] at hx
          rcases hx with h1 | h1
          · subst h1; exact List.mem_cons_self
          · exact List.mem_cons_of_mem _ (ih x h1.1)
      exact this _ _ ht

def exP : Problem where
  tidOf := fun i => i
  children := fun _ => []
  requested := [0, 1]
  ty := fun _ => 0
  maxPar := fun _ => none
  cacheable := fun _ => true
  fails := fun t => t = 0
  dies := fun _ => false
  behave := fun t _ => some (t + 10)

example : (run { backend := .fork, maxWorkers := 2, contOnFail := true, bust := false } exP [] 3
            [⟨fun _ => true⟩, ⟨fun _ => true⟩]).status = .returned [(1, 11)] ∧
          (run { backend := .fork, maxWorkers := 2, contOnFail := false, bust := false } exP [] 3
            [⟨fun _ => true⟩, ⟨fun _ => true⟩]).status = .raised (.labError 0) := by decide

/-! ## whole runs -/

/-- with `continue_on_failure` the coordinator never raises: every loop-head state is running and
    the run ends running-out-of-schedule or returned -/
theorem failure_isolated_status (cfg : Config) (p : Problem) (store : Store) (fuel : Nat) (sched : List Choice)
    (hcf : cfg.contOnFail = true) :
    (runLoop cfg p (reqTids p) sched (initRS cfg p store fuel)).status = .running ∧
    ∀ e, (run cfg p store fuel sched).status ≠ .raised e := by
  have h1 := loopHead_status_cof cfg p store fuel sched hcf
  refine ⟨h1, ?_⟩
  intro e he
  have h2 : (run cfg p store fuel sched).status = (finish (reqTids p) (loopHead cfg p store fuel sched)).status := rfl
  rw [h2] at he
  simp only [finish, h1] at he
  split at he <;> simp [h1] at he

theorem failure_isolated_returns (cfg : Config) (p : Problem) (store : Store) (fuel : Nat) (sched : List Choice)
    (hcf : cfg.contOnFail = true) (hA : Acyclic p) (hF : FuelOK p fuel) (hL : LimitsPos cfg p)
    (hfair : Fair sched) (hlen : (plan cfg p store fuel).pending.length + 1 ≤ sched.length) :
    ∃ r, (run cfg p store fuel sched).status = .returned r := by
  rcases run_status_cases cfg p store fuel sched with h | h | ⟨t, h⟩
  · exact absurd h (run_terminates cfg p store fuel sched hA hF hL hfair hlen)
  · exact h
  · exact absurd h ((failure_isolated_status cfg p store fuel sched hcf).2 _)

/-- after a raise the rest of the schedule changes nothing: no further submit, start or yield -/
theorem no_start_after_raise (cfg : Config) (p : Problem) (store : Store) (fuel : Nat) (sched more : List Choice)
    (e : Err) (h : (runLoop cfg p (reqTids p) sched (initRS cfg p store fuel)).status = .raised e) :
    runLoop cfg p (reqTids p) (sched ++ more) (initRS cfg p store fuel)
      = runLoop cfg p (reqTids p) sched (initRS cfg p store fuel) := by
  have key : ∀ (s : List Choice) (rs : RS), (runLoop cfg p (reqTids p) s rs).status = .raised e →
      runLoop cfg p (reqTids p) (s ++ more) rs = runLoop cfg p (reqTids p) s rs := by
    intro s
    induction s with
    | nil =>
      intro rs hrs
      simp only [runLoop] at hrs
      exact raised_stops_loop cfg p _ more rs e hrs
    | cons c cs ih =>
      intro rs hrs
      simp only [List.cons_append, runLoop] at hrs ⊢
      split
      · next hrun =>
        simp only [hrun] at hrs
        split
        · next hl => simp only [hl, if_true] at hrs; exact ih _ hrs
        · next hl =>
          simp only [hl] at hrs
          have : rs.status = .raised e := by simpa using hrs
          rw [hrun] at this
      · rfl
  exact key sched _ h

/-- non-vacuity: 2 dies and 1 raises in the diamond; with `continue_on_failure` the run returns
    (3 handles the missing values itself); without it the first failure raises `LabError` -/
example :
    let pr : Problem := { invExP with fails := fun t => t == 1, dies := fun t => t == 2 }
    (run invExCfg pr [] 4 (List.replicate 5 chooseAll)).status = .returned [(3, 3014)] ∧
    (run { invExCfg with contOnFail := false } pr [] 4 (List.replicate 5 chooseAll)).status
      = .raised (.labError 1) := by decide

/-- the hypotheses of `failure_isolated_returns` are satisfiable together -/
example (be : Backend) :
    ∃ r, (run { invExCfg with backend := be } { invExP with fails := fun t => t == 1, dies := fun t => t == 2 }
      [] 4 (List.replicate 5 chooseAll)).status = .returned r :=
  failure_isolated_returns _ _ [] 4 _ rfl invExP_acyclic invExP_fuel (invEx_limits be 2 (by decide))
    (fair_replicate 5 chooseAll rfl) (by cases be <;> decide)

end Lt.Props.C10
