import LabtechModel.Proofs.Submit
/-!
# C10 — One task's failure never disturbs unrelated tasks

Proved here, for every state, task and failing outcome (raise or death):
* with `continue_on_failure`, handling a failed task never raises (`failure_is_skipped`): the run
  carries on; the failed task stores no result and nothing is captured for it
  (`failed_task_has_no_result`), and other tasks' captured results are untouched;
* without it, the first failure turns into `LabError` for that very task (`fail_fast_raises`), the
  rest of the batch is not processed and the loop body never runs again, so no further task is
  started (`raised_stops_yields`, `raised_stops_loop`);
* a failure still completes the task in the scheduler, so its dependents are unblocked exactly as
  for a success (`failure_completes_task`);
* `run_tasks` returns only the requested tasks that have a captured result (`returned_only_captured`).
-/
namespace Lt.Props.C10
open Lt

def failed (o : Outcome) : Prop := o = .exc ∨ o = .died

theorem failure_is_skipped (cfg : Config) (req : List Tid) (rs : RS) (t : Tid) (o : Outcome)
    (ho : failed o) (hc : cfg.contOnFail = true) (s' : TS) (rem : List Tid)
    (hct : completeTask rs.ts t = some (s', rem)) :
    (processYield cfg req rs t o).status = rs.status ∧ (processYield cfg req rs t o).ts = s' := by
  rcases ho with h | h <;> subst h <;> simp [processYield, hct, hc]

theorem failed_task_has_no_result (cfg : Config) (req : List Tid) (rs : RS) (t : Tid) (o : Outcome)
    (ho : failed o) :
    (processYield cfg req rs t o).taskResults = rs.taskResults ∧
    ∀ kv, kv ∈ (processYield cfg req rs t o).results → kv ∈ rs.results := by
  rcases ho with h | h <;> subst h <;> simp only [processYield] <;>
    (split
     · exact ⟨rfl, fun _ h => h⟩
     · refine ⟨rfl, fun kv h => ?_⟩
       simp only at h
       split at h
       · simp only [removeResults, List.mem_filter] at h; exact h.1
       · exact h)

theorem fail_fast_raises (cfg : Config) (req : List Tid) (rs : RS) (t : Tid) (o : Outcome)
    (ho : failed o) (hc : cfg.contOnFail = false) (s' : TS) (rem : List Tid)
    (hct : completeTask rs.ts t = some (s', rem)) :
    (processYield cfg req rs t o).status = .raised (.labError t) := by
  rcases ho with h | h <;> subst h <;> simp [processYield, hct, hc]

theorem raised_stops_yields (cfg : Config) (req : List Tid) (ys : List (Tid × Outcome)) (rs : RS)
    (e : Err) (h : rs.status = .raised e) : processYields cfg req ys rs = rs := by
  cases ys with
  | nil => rfl
  | cons y ys => obtain ⟨t, o⟩ := y; simp [processYields, h]

/-- once the run has raised, the loop body never runs again: no submit, no process start, no wait -/
theorem raised_stops_loop (cfg : Config) (p : Problem) (req : List Tid) (sched : List Choice) (rs : RS)
    (e : Err) (h : rs.status = .raised e) : runLoop cfg p req sched rs = rs := by
  cases sched with
  | nil => rfl
  | cons c cs => simp [runLoop, h]

theorem failure_completes_task (cfg : Config) (req : List Tid) (rs : RS) (t : Tid) (o : Outcome) (v : Val)
    (s' : TS) (rem : List Tid) (hct : completeTask rs.ts t = some (s', rem)) :
    (processYield cfg req rs t o).ts = (processYield cfg req rs t (.ok v)).ts := by
  cases o <;> simp [processYield, hct]

theorem returned_only_captured (req : List Tid) (rs : RS) (r : List (Tid × Val))
    (h : (finish req rs).status = .returned r) (hr : rs.status = .running) :
    ∀ kv ∈ r, kv.1 ∈ req ∧ lookup kv.1 rs.taskResults = some kv.2 := by
  simp only [finish, hr] at h
  split at h
  · simp [hr] at h
  · simp only [Status.returned.injEq] at h
    subst h
    intro kv hkv
    simp only [List.mem_filterMap] at hkv
    obtain ⟨t, ht, hl⟩ := hkv
    cases hlk : lookup t rs.taskResults with
    | none => simp [hlk] at hl
    | some v =>
      simp only [hlk, Option.map_some, Option.some.injEq] at hl
      subst hl
      refine ⟨?_, hlk⟩
      have : ∀ (l : List Nat) (x : Nat), x ∈ dedup l → x ∈ l := by
        intro l
        induction l with
        | nil => intro x hx; simp [dedup] at hx
        | cons a b ih =>
          intro x hx
          simp only [dedup, List.mem_cons, List.mem_filter] at hx
          rcases hx with h1 | h1
          · subst h1; exact List.mem_cons_self
          · exact List.mem_cons_of_mem _ (ih x h1.1)
      exact this _ _ ht

def exP : Problem where
  tidOf := fun i => i
  children := fun _ => []
  requested := [0, 1]
  ty := fun _ => 0
  maxPar := fun _ => none
  cacheable := fun _ => true
  fails := fun t => t = 0
  dies := fun _ => false
  behave := fun t _ => some (t + 10)

example : (run { backend := .fork, maxWorkers := 2, contOnFail := true, bust := false } exP [] 3
            [⟨fun _ => true⟩, ⟨fun _ => true⟩]).status = .returned [(1, 11)] ∧
          (run { backend := .fork, maxWorkers := 2, contOnFail := false, bust := false } exP [] 3
            [⟨fun _ => true⟩, ⟨fun _ => true⟩]).status = .raised (.labError 0) := by decide

end Lt.Props.C10
