import LabtechModel.Proofs.PathLemmas
import LabtechModel.Proofs.PathTouch
import LabtechModel.Proofs.PathRoot
/-!
# C18 — Local storage never reads, writes or deletes outside its directory

Model: `LabtechModel/Model/Path.lean` (M8) — `validate_file_path_key`, `LocalStorage._key_to_path`,
`exists`, `file_handle` and `delete` (with the `is_symlink` checks of /repo commits a78c04e and becc08b), on top of
CPython 3.12's `_joinrealpath` / `normpath` / `Path.resolve` and the kernel's path walk.

Every statement is closed under: every file tree `fs` (any finite map path ↦ dir | file | symlink with
any target string: links to siblings, to the root, to the outside, dangling, loops), every recursion
budget `fuel`, every storage path `sp`, every key, filename and mode string.  `r` is the storage
directory, i.e. what `storage_path.resolve()` returns in that tree; the only hypothesis on it is
`r.comps ≠ []` (the storage directory is not `/`).

Two levels:
* *path level* (unconditional): the path strings handed to the OS are `r/c` (mkdir, stat, rmtree) and
  `r/c/f` (lstat, open) for one component `c`, whatever the tree looks like;
* *node level*: the nodes those calls touch are these very paths when the resolved paths are free of
  symlinks.  `realpath` guarantees that only when it did not hit a symlink loop
  (`realpath_link_free_partial`; the unrestricted statement is FALSE, see
  `realpath_link_free_fails`), which is why `file_handle` needed the `is_symlink` check
  (`old_file_handle_escapes`, `new_file_handle_rejects`).  With the check the end of the opened path is
  never a symlink (`open_end_not_symlink`, unconditional), and since commit becc08b neither is the end
  of an accepted key path (`key_end_not_symlink`); the node-level statements
  (`file_handle_touches_partial`, `delete_touches_partial`) only assume that the resolution of the
  *storage directory's own path* met no loop.

What that hypothesis amounts to (section "the storage root" at the end):
* it is NECESSARY for the conclusion as stated (`root_loop_witness`: a root `/s -> l/../t`, `/l -> l`,
  `/t -> /o` resolves to `r = /t`, and `delete('k')` removes `/o/k`, which is not `r/k` as a node);
* it FOLLOWS from a property of the tree alone: the stored root is a normal path none of whose
  prefixes is a symlink (`root_linkfree_no_loop`; theorems `…_linkfree_root`) — which is what
  `LocalStorage.__init__` establishes, `self._storage_path = storage_dir.resolve()`, when that
  constructor-time resolution met no loop and the tree above the root has not been changed since
  (`…_ctor_partial`: all hypotheses are about the constructor-time tree + a frame condition);
* with NO hypothesis on the root at all the node-level confinement still holds relative to the
  directory `R` that the kernel reaches through `storage_path.resolve()`: `delete` removes only the
  child `R/c` (`delete_touches_real`), `file_handle` creates only `R/c` and writes only a direct
  child `K/f` of the directory `K` the kernel reaches through the key path `r/c`
  (`file_handle_touches_real`). If `r` is symlink-free then `R = r`.
-/
namespace Lt.Props.C18
open Lt.Path

/-- `'/'` and `'.'` are among `disallowed_key_chars` as extracted from /repo's source now -/
theorem slash_and_dot_forbidden : '/' ∈ disallowed ∧ '.' ∈ disallowed := by decide

theorem not_contains_of_any_false (l : List Char) (key : List Char)
    (hc : l.any (fun c => key.contains c) = false) (c : Char) (h : c ∈ l) : c ∉ key := by
  intro hk
  have := List.any_eq_false.mp hc c h
  simp [hk] at this

/-- a key that passes the emptiness and forbidden-character tests is one normal path component:
    `storage_path / key` appends exactly `key`, which is not `''`, `.` or `..` and has no separator.
    (Depends on `'/'` and `'.'` being forbidden in the *source*: `Generated.lean` is regenerated on
    every check.) -/
theorem key_single_component (sp : RPath) (key : List Char) (hne : key ≠ [])
    (hc : disallowed.any (fun c => key.contains c) = false) :
    pjoin sp key = ⟨sp.ds, sp.comps ++ [key]⟩ ∧ key ≠ dot ∧ key ≠ dotdot ∧ '/' ∉ key := by
  have hs : '/' ∉ key := not_contains_of_any_false _ _ hc _ slash_and_dot_forbidden.1
  have hd : '.' ∉ key := not_contains_of_any_false _ _ hc _ slash_and_dot_forbidden.2
  have h1 : key ≠ dot := by intro e; apply hd; simp [e, dot]
  have h2 : key ≠ dotdot := by intro e; apply hd; simp [e, dotdot]
  refine ⟨?_, h1, h2, hs⟩
  have habs : isAbs key = false := by
    cases key with
    | nil => exact absurd rfl hne
    | cons a as =>
      simp only [isAbs, List.head?_cons]
      have : a ≠ '/' := by intro e; apply hs; simp [e]
      simp [this]
  simp only [pjoin, splitSlash_no_slash key hs, habs]
  simp [hne, h1]

/-- what `_key_to_path` returns when it returns -/
theorem keyToPath_ok (fs : FS) (fuel : Nat) (sp : RPath) (key : List Char) (kp : RPath)
    (h : keyToPath fs fuel sp key = .ok kp) :
    key ≠ [] ∧ disallowed.any (fun c => key.contains c) = false ∧
    resolve fs fuel (pjoin sp key) = .ok kp ∧ pathIsSymlink fs kp = .ok false ∧
    ∃ r, resolve fs fuel sp = .ok r ∧ kp.parent = r := by
  simp only [keyToPath] at h
  split at h
  · cases h
  · rename_i hv
    simp only [validateKey] at hv
    split at hv
    · cases hv
    · rename_i hne
      split at hv
      · cases hv
      · rename_i hch
        split at hv
        · cases hv
        · rename_i kp' hkp'
          rw [hkp'] at h
          cases h
          split at hv
          · cases hv
          · rename_i r hr
            split at hv
            · cases hv
            · rename_i hpar
              split at hv
              · cases hv
              · cases hv
              · rename_i hsym
                exact ⟨hne, by simpa using hch, hkp', hsym, r, hr, by simpa using hpar⟩

/-- **validate_direct_child**: whatever the tree, the key and the links in the way, an accepted key
    resolves to a direct child `r/c` of the resolved storage directory -/
theorem validate_direct_child (fs : FS) (fuel : Nat) (sp : RPath) (key : List Char) (kp r : RPath)
    (hr : resolve fs fuel sp = .ok r) (hroot : r.comps ≠ [])
    (h : keyToPath fs fuel sp key = .ok kp) : ∃ c, kp = ⟨r.ds, r.comps ++ [c]⟩ := by
  obtain ⟨_, _, _, _, r', hr', hp⟩ := keyToPath_ok fs fuel sp key kp h
  rw [hr] at hr'
  cases hr'
  exact parent_eq_child kp r hroot hp

/-- the path an effect is performed on is `r/c` (mkdir, stat, rmtree) or `r/c/f` (lstat, open) -/
def EffectAt (r : RPath) (c : Comp) : Effect → Prop
  | .mkdir p => p = ⟨r.ds, r.comps ++ [c]⟩
  | .stat p => p = ⟨r.ds, r.comps ++ [c]⟩
  | .rmtree p => p = ⟨r.ds, r.comps ++ [c]⟩
  | .lstatEnd p => ∃ f, p = ⟨r.ds, r.comps ++ [c, f]⟩
  | .openf p _ => ∃ f, p = ⟨r.ds, r.comps ++ [c, f]⟩

theorem child_of_parent (fp kp : RPath) (r : RPath) (c : Comp) (hk : kp = ⟨r.ds, r.comps ++ [c]⟩)
    (h : fp.parent = kp) : ∃ f, fp = ⟨r.ds, r.comps ++ [c, f]⟩ := by
  have hne : kp.comps ≠ [] := by rw [hk]; simp
  obtain ⟨f, hf⟩ := parent_eq_child fp kp hne h
  refine ⟨f, ?_⟩
  rw [hf, hk]; simp

/-- **ops_confined** (path level, unconditional): every file-system call of `exists`, `file_handle`
    (any mode) and `delete` is made on `r/c` or on `r/c/f` for one component `c`; a rejected operation
    has made no call at all, or only calls on these paths up to the point of rejection (see
    `file_handle_reject_only_mkdir`). -/
theorem ops_confined (fs : FS) (fuel : Nat) (sp : RPath) (key fname mode : List Char) (r : RPath)
    (hr : resolve fs fuel sp = .ok r) (hroot : r.comps ≠ []) (o : Outcome)
    (ho : o = opExists fs fuel sp key ∨ o = opFileHandle fs fuel sp key fname mode ∨ o = opDelete fs fuel sp key) :
    ∃ c, ∀ e ∈ o.effects, EffectAt r c e := by
  cases hk : keyToPath fs fuel sp key with
  | error e =>
    refine ⟨[], ?_⟩
    rcases ho with ho | ho | ho <;> subst ho <;> simp [opExists, opFileHandle, opDelete, hk]
  | ok kp =>
    obtain ⟨c, hc⟩ := validate_direct_child fs fuel sp key kp r hr hroot hk
    refine ⟨c, ?_⟩
    rcases ho with ho | ho | ho <;> subst ho
    · simp only [opExists, hk]
      split <;> simp [EffectAt, hc]
    · simp only [opFileHandle, hk]
      split
      · simp [EffectAt, hc]
      · split
        · simp [EffectAt, hc]
        · rename_i fp hfp
          split
          · simp [EffectAt, hc]
          · rename_i hpar
            have hpar' : fp.parent = kp := by simpa using hpar
            obtain ⟨f, hf⟩ := child_of_parent fp kp r c hc hpar'
            split <;> simp [EffectAt, hc, hf]
    · simp only [opDelete, hk]
      split <;> simp [EffectAt, hc]

/-- a `file_handle` that is rejected before opening has touched at most the key directory it made -/
theorem file_handle_reject_only_mkdir (fs : FS) (fuel : Nat) (sp : RPath) (key fname mode : List Char)
    (hno : ∀ p m, Effect.openf p m ∉ (opFileHandle fs fuel sp key fname mode).effects) :
    (opFileHandle fs fuel sp key fname mode).touched = [] ∨
    ∃ kp, keyToPath fs fuel sp key = .ok kp ∧
      (opFileHandle fs fuel sp key fname mode).touched = touchOfMkdir (doMkdir fs kp) := by
  cases hk : keyToPath fs fuel sp key with
  | error e => left; simp [opFileHandle, hk]
  | ok kp =>
    right
    refine ⟨kp, rfl, ?_⟩
    simp only [opFileHandle, hk] at hno ⊢
    generalize doMkdir fs kp = m at hno ⊢
    cases m
    case failed e => simp [touchOfMkdir]
    all_goals
      simp only at hno ⊢
      split
      · rfl
      · split
        · rfl
        · split
          · rfl
          · rfl
          · rename_i fp _ _ _ _
            have := hno fp mode
            simp_all

/-- **delete_only_key_dir**: `delete` makes no call but `stat(r/c)` and `rmtree(r/c)`, and the only
    node it can remove is the one `rmtree(r/c)` is applied to -/
theorem delete_only_key_dir (fs : FS) (fuel : Nat) (sp : RPath) (key : List Char) (r : RPath)
    (hr : resolve fs fuel sp = .ok r) (hroot : r.comps ≠ []) :
    ∃ c, (∀ e ∈ (opDelete fs fuel sp key).effects,
            e = .stat ⟨r.ds, r.comps ++ [c]⟩ ∨ e = .rmtree ⟨r.ds, r.comps ++ [c]⟩) ∧
         ((opDelete fs fuel sp key).touched = [] ∨
          (opDelete fs fuel sp key).touched = (doRmtree fs ⟨r.ds, r.comps ++ [c]⟩).1) := by
  cases hk : keyToPath fs fuel sp key with
  | error e => exact ⟨[], by simp [opDelete, hk]⟩
  | ok kp =>
    obtain ⟨c, hc⟩ := validate_direct_child fs fuel sp key kp r hr hroot hk
    refine ⟨c, ?_⟩
    simp only [opDelete, hk]
    split
    · simp [hc]
    · simp [hc]
    · simp [hc]

/-- **open_end_not_symlink** (unconditional, the repaired code): whenever `file_handle` opens a path,
    that path is a direct child of the key path and its last component is not a symlink in the tree
    as it is at that moment (after the `mkdir`) -/
theorem open_end_not_symlink (fs : FS) (fuel : Nat) (sp : RPath) (key fname mode : List Char)
    (fp : RPath) (m : List Char)
    (h : Effect.openf fp m ∈ (opFileHandle fs fuel sp key fname mode).effects) :
    ∃ kp, keyToPath fs fuel sp key = .ok kp ∧ fp.parent = kp ∧
      pathIsSymlink (fsAfterMkdir fs (doMkdir fs kp)) fp = .ok false := by
  cases hk : keyToPath fs fuel sp key with
  | error e => simp [opFileHandle, hk] at h
  | ok kp =>
    refine ⟨kp, rfl, ?_⟩
    simp only [opFileHandle, hk] at h
    split at h
    · simp at h
    · split at h
      · simp at h
      · rename_i fp' hfp'
        split at h
        · simp at h
        · rename_i hpar
          split at h
          · simp at h
          · simp at h
          · rename_i hsym
            simp at h
            obtain ⟨h1, _⟩ := h
            subst h1
            exact ⟨by simpa using hpar, hsym⟩

/-! ## `realpath` and symlinks

Full statement of DESIGN's `realpath_link_free`:
  `resolve fs fuel p = .ok q → LinkFree fs q.comps`
(no prefix of a resolved path, the path itself included, is a symlink).  It is FALSE
(`realpath_link_free_fails`): on a symlink loop `_joinrealpath` returns the rest of the path
unresolved, `normpath` then removes `loop/..` lexically and the follow-up `stat()` no longer sees the
loop.  Proved: the statement under the hypothesis that no loop was hit. -/

/-- `_joinrealpath` finished with `ok = True` (it met no symlink loop) -/
def NoLoopHit (fs : FS) (fuel : Nat) (p : RPath) : Prop :=
  ∃ r, jr fs fuel [] [] p.comps = .ok r ∧ r.ok = true

theorem realpath_link_free_partial (fs : FS) (fuel : Nat) (p q : RPath)
    (h : resolve fs fuel p = .ok q) (hn : NoLoopHit fs fuel p) :
    LinkFree fs q.comps ∧ NormalP q.comps ∧ q.ds = false := by
  obtain ⟨r, hr, hok⟩ := hn
  have hg := (jr_good fs fuel [] [] p.comps r (good_nil fs) (by intro q p hm; cases hm) hr).2 hok
  simp only [resolve, hr, normpath_normal r.path hg.2, hok, if_true] at h
  split at h
  · cases h
  · split at h
    · cases h
    · cases h
      exact ⟨hg.1, hg.2, rfl⟩

/-- the tree of the witnesses: `/s` the storage directory, `/s/k` a key directory holding a self-loop
    `l -> l` and `x -> /o`, `/o` a file outside -/
def fsW : FS :=
  [ ([['s']], .dir), ([['s'], ['k']], .dir), ([['s'], ['k'], ['l']], .link ['l']),
    ([['s'], ['k'], ['x']], .link ['/', 'o']), ([['o']], .file) ]

/-- witness of the negation of the unrestricted `realpath_link_free`: resolving `/s/k/l/../x` yields
    `/s/k/x`, which is a symlink (to the outside) -/
theorem realpath_link_free_fails :
    resolve fsW 5 ⟨false, [['s'], ['k'], ['l'], ['.', '.'], ['x']]⟩ = .ok ⟨false, [['s'], ['k'], ['x']]⟩ ∧
    optIsLink (lstat fsW [['s'], ['k'], ['x']]) = true := by decide

/-- the pre-repair `file_handle` (no `is_symlink` check) accepted key `k`, filename `l/../x`, mode `w`
    in that tree and wrote the outside file `/o` -/
theorem old_file_handle_escapes :
    (opFileHandleOld fsW 5 ⟨false, [['s']]⟩ ['k'] ['l', '/', '.', '.', '/', 'x'] ['w']).touched = [.write [['o']]] ∧
    (opFileHandleOld fsW 5 ⟨false, [['s']]⟩ ['k'] ['l', '/', '.', '.', '/', 'x'] ['w']).result = .ok .handle := by
  decide

/-- the repaired `file_handle` rejects it with a `StorageError` and touches nothing -/
theorem new_file_handle_rejects :
    (opFileHandle fsW 5 ⟨false, [['s']]⟩ ['k'] ['l', '/', '.', '.', '/', 'x'] ['w']).touched = [] ∧
    (opFileHandle fsW 5 ⟨false, [['s']]⟩ ['k'] ['l', '/', '.', '.', '/', 'x'] ['w']).result = .error .storage := by
  decide


/-! ## node level

Full statement (`ops_touch_confined`): for every tree, storage path, key, filename and mode, every node
that `exists` / `file_handle` / `delete` creates, writes or removes is `r/c` or `r/c/f` for one `c`
— where the touched node is computed by the kernel walk `kwalk`, which follows symlinks.
Proved below under one extra hypothesis, `hR : NoLoopHit fs fuel sp` — resolving the *storage
directory's own path* met no symlink loop (then `r` is symlink-free by `realpath_link_free_partial`).
Nothing is assumed about the key or the filename: since /repo commits a78c04e and becc08b the code
checks `is_symlink()` on both resolved paths, which closes the loop-fallback of `realpath`
(`realpath_link_free_fails`) on either side (`key_end_not_symlink`, `open_end_not_symlink`).
`LocalStorage.__init__` stores `storage_dir.resolve()`, a path without `.`/`..`; if that path later
runs into a symlink loop, `resolve()` raises `RuntimeError` in every run of the harness, but that the
loop-fallback can never be accepted for the storage path itself is not proved — hence the hypothesis.
Section "the storage root" at the end: the hypothesis is necessary for this conclusion
(`root_loop_witness`), follows from "no prefix of the stored root is a symlink"
(`…_linkfree_root`, `…_ctor_partial`), and is not needed at all when the conclusion is stated
relative to the directory the kernel reaches through `r` (`delete_touches_real`,
`file_handle_touches_real`). -/

/-- an accepted key resolves to a path that `is_symlink()` answered `False` for (unconditional) -/
theorem key_end_not_symlink (fs : FS) (fuel : Nat) (sp : RPath) (key : List Char) (kp : RPath)
    (h : keyToPath fs fuel sp key = .ok kp) : pathIsSymlink fs kp = .ok false :=
  (keyToPath_ok fs fuel sp key kp h).2.2.2.1

theorem exists_touches_nothing (fs : FS) (fuel : Nat) (sp : RPath) (key : List Char) :
    (opExists fs fuel sp key).touched = [] := by
  simp only [opExists]
  split
  · rfl
  · split <;> rfl

/-- what is known about an accepted key path when the storage directory resolved without a loop -/
theorem key_path_facts (fs : FS) (fuel : Nat) (sp : RPath) (key : List Char) (kp r : RPath)
    (hr : resolve fs fuel sp = .ok r) (hroot : r.comps ≠ []) (hR : NoLoopHit fs fuel sp)
    (hkp : keyToPath fs fuel sp key = .ok kp) :
    ∃ c, kp = ⟨r.ds, r.comps ++ [c]⟩ ∧ LinkFree fs kp.comps.dropLast ∧ NormalP kp.comps ∧
      pathIsSymlink fs kp = .ok false := by
  obtain ⟨c, hc⟩ := validate_direct_child fs fuel sp key kp r hr hroot hkp
  obtain ⟨_, _, hres, hsym, _⟩ := keyToPath_ok fs fuel sp key kp hkp
  obtain ⟨hlf, _, _⟩ := realpath_link_free_partial fs fuel sp r hr hR
  refine ⟨c, hc, ?_, resolve_normal fs fuel _ kp hres, hsym⟩
  rw [hc]; simpa using hlf

theorem delete_touches_partial (fs : FS) (fuel : Nat) (sp : RPath) (key : List Char) (r : RPath)
    (hr : resolve fs fuel sp = .ok r) (hroot : r.comps ≠ []) (hR : NoLoopHit fs fuel sp) :
    ∃ c, ∀ t ∈ (opDelete fs fuel sp key).touched, t = .remove (r.comps ++ [c]) := by
  cases hkp : keyToPath fs fuel sp key with
  | error e => exact ⟨[], by simp [opDelete, hkp]⟩
  | ok kp =>
    obtain ⟨c, hc, hdl, hnm, _⟩ := key_path_facts fs fuel sp key kp r hr hroot hR hkp
    have hkc : kp.comps = r.comps ++ [c] := by rw [hc]
    refine ⟨c, ?_⟩
    simp only [opDelete, hkp]
    split
    · simp
    · simp
    · intro t ht
      rcases doRmtree_touch fs kp hdl hnm with h | h
      · simp [h] at ht
      · simp only [h, List.mem_singleton] at ht
        rw [ht, hkc]

theorem file_handle_touches_partial (fs : FS) (fuel : Nat) (sp : RPath) (key fname mode : List Char)
    (r : RPath) (hr : resolve fs fuel sp = .ok r) (hroot : r.comps ≠ []) (hR : NoLoopHit fs fuel sp) :
    ∃ c, ∀ t ∈ (opFileHandle fs fuel sp key fname mode).touched,
      t = .createDir (r.comps ++ [c]) ∨ ∃ f, t = .write (r.comps ++ [c, f]) := by
  cases hkp : keyToPath fs fuel sp key with
  | error e => exact ⟨[], by simp [opFileHandle, hkp]⟩
  | ok kp =>
    obtain ⟨c, hc, hdl, hnm, hksym⟩ := key_path_facts fs fuel sp key kp r hr hroot hR hkp
    have hkc : kp.comps = r.comps ++ [c] := by rw [hc]
    refine ⟨c, ?_⟩
    cases linkFree_or_mkdir_fails fs kp hdl hnm hksym with
    | inr h => obtain ⟨e, hfail⟩ := h; simp [opFileHandle, hkp, hfail]
    | inl hlf =>
      have hmk : ∀ t ∈ touchOfMkdir (doMkdir fs kp), t = Touch.createDir (r.comps ++ [c]) := by
        intro t ht
        rcases doMkdir_touch fs kp hdl hnm with h | h
        · simp [h] at ht
        · simp only [h, List.mem_singleton] at ht
          rw [ht, hkc]
      have hlf' : LinkFree (fsAfterMkdir fs (doMkdir fs kp)) kp.comps := linkFree_after_mkdir fs _ _ hlf
      simp only [opFileHandle, hkp]
      generalize doMkdir fs kp = m at hmk hlf' ⊢
      cases m
      case failed e => simp
      all_goals
        simp only []
        split
        · intro t ht; exact Or.inl (hmk t ht)
        · rename_i fp hfp
          split
          · intro t ht; exact Or.inl (hmk t ht)
          · rename_i hpar
            have hpar' : fp.parent = kp := by simpa using hpar
            obtain ⟨f, hf⟩ := child_of_parent fp kp r c hc hpar'
            split
            · intro t ht; exact Or.inl (hmk t ht)
            · intro t ht; exact Or.inl (hmk t ht)
            · rename_i hsym
              intro t ht
              rcases List.mem_append.mp ht with h1 | h1
              · exact Or.inl (hmk t h1)
              · right
                refine ⟨f, ?_⟩
                have hdl' : fp.comps.dropLast = kp.comps := by
                  have := congrArg RPath.comps hpar'
                  simpa [RPath.parent] using this
                have := doOpen_touch _ fp mode (by rw [hdl']; exact hlf') (resolve_normal _ _ _ _ hfp) hsym t h1
                rw [this, hf]

/-! non-vacuity: in the same tree (it holds a symlink to the outside) the hypotheses of the theorems
are satisfiable and an accepted `file_handle` performs exactly `mkdir /s/k`, `lstat /s/k/f`,
`open /s/k/f`; a key that is a symlink to the outside is rejected. -/
example : resolve fsW 5 ⟨false, [['s']]⟩ = .ok ⟨false, [['s']]⟩ ∧ (⟨false, [['s']]⟩ : RPath).comps ≠ [] := by decide
example : NoLoopHit fsW 5 ⟨false, [['s']]⟩ := ⟨⟨[['s']], true, false, []⟩, by decide⟩
example :
    (opFileHandle fsW 5 ⟨false, [['s']]⟩ ['k'] ['f'] ['w']).effects =
      [.mkdir ⟨false, [['s'], ['k']]⟩, .lstatEnd ⟨false, [['s'], ['k'], ['f']]⟩,
       .openf ⟨false, [['s'], ['k'], ['f']]⟩ ['w']] ∧
    (opFileHandle fsW 5 ⟨false, [['s']]⟩ ['k'] ['f'] ['w']).touched = [.write [['s'], ['k'], ['f']]] := by decide
example :
    (opDelete (([['s'], ['e']], .link ['/', 'o']) :: fsW) 5 ⟨false, [['s']]⟩ ['e']).result = .error .storage ∧
    (opDelete fsW 5 ⟨false, [['s']]⟩ ['k']).touched = [.remove [['s'], ['k']]] := by decide
example : (opExists fsW 5 ⟨false, [['s']]⟩ ['.', '.']).result = .error .storage := by decide

/-! ## the storage root

`LocalStorage.__init__` stores `self._storage_path = storage_dir.resolve()` once; every operation
re-resolves `self._storage_path / key` and compares with `self._storage_path.resolve()`. -/

/-- the tree of `root_loop_witness`: the stored root `/s` is a symlink whose target `l/../t` runs
    through the self-loop `/l`; `/t` is a symlink to the directory `/o`, which holds `k` -/
def fsL : FS :=
  [ ([['s']], .link ['l', '/', '.', '.', '/', 't']), ([['l']], .link ['l']),
    ([['t']], .link ['/', 'o']), ([['o']], .dir), ([['o'], ['k']], .dir) ]

/-- WITNESS that `NoLoopHit` cannot simply be dropped from `delete_touches_partial`: with the stored
    root `/s`, `storage_path.resolve()` answers `/t` (loop fallback + `normpath`; the follow-up `stat`
    of `/t` succeeds), the key `k` is accepted with key path `/t/k`, and `rmtree('/t/k')` removes the
    node `/o/k` — not the node `r/k = /t/k`. (It IS the child `k` of the directory the kernel reaches
    through `r`: `delete_touches_real`.) Not reachable through `LocalStorage.__init__` in an unchanged
    tree: no `storage_dir` resolves to `/s` there, because the `stat('/s')` that `Path.resolve` ends
    with fails with `ELOOP` = `RuntimeError`; see the report. -/
theorem root_loop_witness :
    resolve fsL 5 ⟨false, [['s']]⟩ = .ok ⟨false, [['t']]⟩ ∧
    ¬ NoLoopHit fsL 5 ⟨false, [['s']]⟩ ∧
    (opDelete fsL 5 ⟨false, [['s']]⟩ ['k']).touched = [.remove [['o'], ['k']]] ∧
    kwalk fsL true linkBudget [] [['t']] = .ok [['o']] := by
  refine ⟨by decide, ?_, by decide, by decide⟩
  rintro ⟨r, hr, hok⟩
  have h : jr fsL 5 [] [] [['s']] = .ok ⟨[['l'], ['.', '.'], ['t']], false, false, [([['l']], none), ([['s']], none)]⟩ := by
    decide
  rw [h] at hr
  cases hr
  cases hok

/-- a stored root that is a normal path with no symlink among its prefixes — a property of the tree,
    not of the run of `realpath` — resolves to itself and meets no loop -/
theorem root_linkfree_no_loop (fs : FS) (fuel : Nat) (sp r : RPath) (hr : resolve fs fuel sp = .ok r)
    (hl : LinkFree fs sp.comps) (hn : NormalP sp.comps) : NoLoopHit fs fuel sp ∧ r.comps = sp.comps :=
  noLoop_of_linkFree fs fuel sp r hr hl hn

/-- what the constructor establishes: if `storage_dir.resolve()` met no loop when the storage was
    constructed (tree `fs0`) and no prefix of the stored root has been replaced since (`lstat` of every
    prefix unchanged — nothing is assumed about what is inside the root), the stored root is a
    symlink-free normal path in the current tree -/
theorem ctor_root_link_free (fs0 fs : FS) (fuel0 : Nat) (dir sp : RPath)
    (h0 : resolve fs0 fuel0 dir = .ok sp) (hn0 : NoLoopHit fs0 fuel0 dir)
    (hframe : ∀ q, q <+: sp.comps → lstat fs q = lstat fs0 q) :
    LinkFree fs sp.comps ∧ NormalP sp.comps := by
  obtain ⟨hl, hn, _⟩ := realpath_link_free_partial fs0 fuel0 dir sp h0 hn0
  exact ⟨fun q hq => by rw [hframe q hq]; exact hl q hq, hn⟩

theorem delete_touches_linkfree_root (fs : FS) (fuel : Nat) (sp : RPath) (key : List Char) (r : RPath)
    (hr : resolve fs fuel sp = .ok r) (hroot : sp.comps ≠ [])
    (hl : LinkFree fs sp.comps) (hn : NormalP sp.comps) :
    ∃ c, ∀ t ∈ (opDelete fs fuel sp key).touched, t = .remove (sp.comps ++ [c]) := by
  obtain ⟨hR, he⟩ := root_linkfree_no_loop fs fuel sp r hr hl hn
  rw [← he] at hroot ⊢
  exact delete_touches_partial fs fuel sp key r hr hroot hR

theorem file_handle_touches_linkfree_root (fs : FS) (fuel : Nat) (sp : RPath) (key fname mode : List Char)
    (r : RPath) (hr : resolve fs fuel sp = .ok r) (hroot : sp.comps ≠ [])
    (hl : LinkFree fs sp.comps) (hn : NormalP sp.comps) :
    ∃ c, ∀ t ∈ (opFileHandle fs fuel sp key fname mode).touched,
      t = .createDir (sp.comps ++ [c]) ∨ ∃ f, t = .write (sp.comps ++ [c, f]) := by
  obtain ⟨hR, he⟩ := root_linkfree_no_loop fs fuel sp r hr hl hn
  rw [← he] at hroot ⊢
  exact file_handle_touches_partial fs fuel sp key fname mode r hr hroot hR

/-- `delete`, every hypothesis about the CONSTRUCTOR-time tree `fs0` (+ the frame condition): the
    only node removed is `root/c`.  Full statement: the same without `hn0` — open, see the header. -/
theorem delete_touches_ctor_partial (fs0 fs : FS) (fuel0 fuel : Nat) (dir sp : RPath) (key : List Char)
    (r : RPath) (h0 : resolve fs0 fuel0 dir = .ok sp) (hn0 : NoLoopHit fs0 fuel0 dir)
    (hframe : ∀ q, q <+: sp.comps → lstat fs q = lstat fs0 q)
    (hr : resolve fs fuel sp = .ok r) (hroot : sp.comps ≠ []) :
    ∃ c, ∀ t ∈ (opDelete fs fuel sp key).touched, t = .remove (sp.comps ++ [c]) := by
  obtain ⟨hl, hn⟩ := ctor_root_link_free fs0 fs fuel0 dir sp h0 hn0 hframe
  exact delete_touches_linkfree_root fs fuel sp key r hr hroot hl hn

theorem file_handle_touches_ctor_partial (fs0 fs : FS) (fuel0 fuel : Nat) (dir sp : RPath)
    (key fname mode : List Char) (r : RPath) (h0 : resolve fs0 fuel0 dir = .ok sp)
    (hn0 : NoLoopHit fs0 fuel0 dir) (hframe : ∀ q, q <+: sp.comps → lstat fs q = lstat fs0 q)
    (hr : resolve fs fuel sp = .ok r) (hroot : sp.comps ≠ []) :
    ∃ c, ∀ t ∈ (opFileHandle fs fuel sp key fname mode).touched,
      t = .createDir (sp.comps ++ [c]) ∨ ∃ f, t = .write (sp.comps ++ [c, f]) := by
  obtain ⟨hl, hn⟩ := ctor_root_link_free fs0 fs fuel0 dir sp h0 hn0 hframe
  exact file_handle_touches_linkfree_root fs fuel sp key fname mode r hr hroot hl hn

/-- the last component of a resolved path with a known parent is a normal component -/
theorem child_normal (fs : FS) (fuel : Nat) (p kp : RPath) (a : P) (c : Comp)
    (h : resolve fs fuel p = .ok kp) (hk : kp.comps = a ++ [c]) : c ≠ [] ∧ c ≠ dot ∧ c ≠ dotdot :=
  resolve_normal fs fuel p kp h c (by rw [hk]; simp)

/-- **delete, NO hypothesis on the root**: whatever the stored root runs through (symlinks, loops,
    the `realpath` fallback), the only node `delete` can remove is the child `c` of the directory `R`
    that the kernel reaches through `storage_path.resolve()` -/
theorem delete_touches_real (fs : FS) (fuel : Nat) (sp : RPath) (key : List Char) (r : RPath)
    (hr : resolve fs fuel sp = .ok r) (hroot : r.comps ≠ []) :
    ∃ c, ∀ t ∈ (opDelete fs fuel sp key).touched,
      ∃ R, kwalk fs true linkBudget [] r.comps = .ok R ∧ lstat fs R = some .dir ∧ t = .remove (R ++ [c]) := by
  cases hkp : keyToPath fs fuel sp key with
  | error e => exact ⟨[], by simp [opDelete, hkp]⟩
  | ok kp =>
    obtain ⟨c, hc⟩ := validate_direct_child fs fuel sp key kp r hr hroot hkp
    have hkc : kp.comps = r.comps ++ [c] := by rw [hc]
    have hcn := child_normal fs fuel _ kp r.comps c (keyToPath_ok fs fuel sp key kp hkp).2.2.1 hkc
    refine ⟨c, ?_⟩
    simp only [opDelete, hkp]
    split
    · simp
    · simp
    · intro t ht
      simp only [doRmtree, hkc] at ht
      cases hw : kwalk fs false linkBudget [] (r.comps ++ [c]) with
      | error e => simp [hw] at ht
      | ok loc =>
        obtain ⟨R, hR, hRd, hloc⟩ := kwalk_snoc_nofollow fs c hcn linkBudget r.comps [] loc hw
        refine ⟨R, hR, hRd, ?_⟩
        simp only [hw] at ht
        split at ht
        · simp only [List.mem_singleton] at ht; rw [ht, hloc]
        · simp at ht
        · simp at ht
        · simp at ht

/-- **file_handle, NO hypothesis on the root**: with `R` the directory the kernel reaches through
    `storage_path.resolve()`, the only node `file_handle` can create is the directory `R/c` and the
    only node it can write is a direct child `R/c/f` of it — whatever symlinks or loops the stored
    root, the key or the filename run through (the `mkdir` in between is taken into account) -/
theorem file_handle_touches_real (fs : FS) (fuel : Nat) (sp : RPath) (key fname mode : List Char)
    (r : RPath) (hr : resolve fs fuel sp = .ok r) (hroot : r.comps ≠ []) :
    ∃ c, ∀ t ∈ (opFileHandle fs fuel sp key fname mode).touched,
      ∃ R, kwalk fs true linkBudget [] r.comps = .ok R ∧ lstat fs R = some .dir ∧
        (t = .createDir (R ++ [c]) ∨ ∃ f, t = .write (R ++ [c, f])) := by
  cases hkp : keyToPath fs fuel sp key with
  | error e => exact ⟨[], by simp [opFileHandle, hkp]⟩
  | ok kp =>
    obtain ⟨c, hc⟩ := validate_direct_child fs fuel sp key kp r hr hroot hkp
    have hkc : kp.comps = r.comps ++ [c] := by rw [hc]
    have hcn := child_normal fs fuel _ kp r.comps c (keyToPath_ok fs fuel sp key kp hkp).2.2.1 hkc
    have hksym := key_end_not_symlink fs fuel sp key kp hkp
    refine ⟨c, ?_⟩
    rcases mkdir_real fs kp r.comps c hkc hcn hksym with ⟨e, hfail⟩ | ⟨R, hR, hRd, hR', hnl', hmk⟩
    · simp [opFileHandle, hkp, hfail]
    · simp only [opFileHandle, hkp]
      generalize doMkdir fs kp = m at hR' hnl' hmk ⊢
      cases m
      case failed e => simp
      all_goals
        simp only []
        split
        · intro t ht; exact ⟨R, hR, hRd, Or.inl (hmk t ht)⟩
        · rename_i fp hfp
          split
          · intro t ht; exact ⟨R, hR, hRd, Or.inl (hmk t ht)⟩
          · rename_i hpar
            have hpar' : fp.parent = kp := by simpa using hpar
            obtain ⟨f, hf⟩ := child_of_parent fp kp r c hc hpar'
            split
            · intro t ht; exact ⟨R, hR, hRd, Or.inl (hmk t ht)⟩
            · intro t ht; exact ⟨R, hR, hRd, Or.inl (hmk t ht)⟩
            · rename_i hsym
              intro t ht
              rcases List.mem_append.mp ht with h1 | h1
              · exact ⟨R, hR, hRd, Or.inl (hmk t h1)⟩
              · have hfc : fp.comps = (r.comps ++ [c]) ++ [f] := by rw [hf]; simp
                have hfn := child_normal _ fuel _ fp _ f hfp hfc
                obtain ⟨K, hK, _, htw⟩ := doOpen_real _ fp mode (r.comps ++ [c]) f hfc hfn hsym t h1
                obtain ⟨R2, hR2, _, _, hK2⟩ := kwalk_snoc_follow _ c hcn linkBudget r.comps [] K hK
                rw [hR'] at hR2
                cases hR2
                have hKe : K = R ++ [c] := hK2 hnl'
                exact ⟨R, hR, hRd, Or.inr ⟨f, by rw [htw, hKe]; simp⟩⟩

/-- in the tree of `root_loop_witness` (stored root `/s`, `R = /o`): `file_handle('n','f','w')` creates
    `/o/n = R/n` and is then rejected (the filename resolves to `/o/n/f`, whose parent is not the
    unresolved key path `/t/n`) -/
example : (opFileHandle fsL 5 ⟨false, [['s']]⟩ ['n'] ['f'] ['w']).touched = [.createDir [['o'], ['n']]] ∧
    (opFileHandle fsL 5 ⟨false, [['s']]⟩ ['n'] ['f'] ['w']).result = .error .storage := by decide

/-- in `root_loop_witness`: `R = /o`, the node removed is `R/k` -/
example : ∃ R, kwalk fsL true linkBudget [] [['t']] = .ok R ∧ lstat fsL R = some .dir ∧
    (opDelete fsL 5 ⟨false, [['s']]⟩ ['k']).touched = [.remove (R ++ [['k']])] :=
  ⟨[['o']], by decide, by decide, by decide⟩

/-- non-vacuity of the `…_linkfree_root` / `…_ctor_partial` hypotheses in the tree `fsW` (root `/s`) -/
example : LinkFree fsW [['s']] ∧ NormalP [['s']] := by
  constructor
  · intro q hq
    rcases List.prefix_cons_iff.mp hq with h | ⟨t, rfl, ht⟩
    · subst h; decide
    · have : t = [] := List.prefix_nil.mp ht
      subst this; decide
  · intro c hc
    simp only [List.mem_singleton] at hc
    subst hc; decide

end Lt.Props.C18
