import LabtechModel.Driver.RunCmd
import LabtechModel.Model.Env
import LabtechModel.Driver.DiagCmd
import LabtechModel.Driver.LogCmd
import LabtechModel.Driver.PathCmd
import LabtechModel.Driver.SaveCmd
import LabtechModel.Driver.HistCmd
import LabtechModel.Driver.ParamsCmd
import LabtechModel.Driver.IntrCmd
import LabtechModel.Driver.FtokCmd
import LabtechModel.Driver.OsetCmd
import LabtechModel.Driver.ClsresCmd
/-! Line-protocol driver: one command per input line, one observation line per command. -/

def step (line : String) : String :=
  match line.trimAscii.toString.splitOn " " with
  | "RUN" :: rest => Lt.Cmd.handle rest
  | "ENV" :: rest => Lt.Env.handle rest
  | "DIAG" :: rest => Lt.DiagCmd.handle rest
  | "LOG" :: rest => Lt.LogCmd.handle rest
  | "PATH" :: rest => Lt.PathCmd.handle rest
  | "SAVE" :: rest => Lt.Save.Cmd.handle rest
  | "HIST" :: rest => Lt.Store.Cmd.handle rest
  | "NORM" :: rest => Lt.Params.Cmd.handle "NORM" rest
  | "CTASKS" :: rest => Lt.Params.Cmd.handle "CTASKS" rest
  | "INTR" :: rest => Lt.IntrCmd.handle rest
  | "FTOK" :: rest => Lt.FtokCmd.handle rest
  | "OSET" :: rest => Lt.OsetCmd.handle rest
  | "CLSRES" :: rest => Lt.ClsresCmd.handle rest
  | _ => "bad-op"

partial def loop (h : IO.FS.Stream) (out : IO.FS.Stream) : IO Unit := do
  let line ← h.getLine
  if line.isEmpty then return ()
  out.putStrLn (step line)
  loop h out

def main : IO Unit := do
  let out ← IO.getStdout
  loop (← IO.getStdin) out
  out.flush
