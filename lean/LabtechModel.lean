import LabtechModel.Model.Run
