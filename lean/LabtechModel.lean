import LabtechModel.Model.Run
import LabtechModel.Driver.RunCmd
import LabtechModel.Proofs.Limit
import LabtechModel.Proofs.Limit2
import LabtechModel.Proofs.Workers
import LabtechModel.Proofs.Plan
import LabtechModel.Props.C04
