"""C08 demo: run_task() (singular) + bust_cache=True + a task whose nested
dependency is already cached.  bust_cache must re-execute everything the run
needs (the dependency too) and replace the entries of what it ran."""
import os
import sys
import tempfile

import labtech


def bump(path):
    n = int(open(path).read()) + 1 if os.path.exists(path) else 1
    with open(path, 'w') as f:
        f.write(str(n))
    return n


@labtech.task
class Dep:
    counter_path: str

    def run(self):
        return bump(self.counter_path)       # result = execution number


@labtech.task
class Top:
    dep: Dep
    counter_path: str

    def run(self):
        return (self.dep.result, bump(self.counter_path))


@labtech.task
class Leaf:
    counter_path: str

    def run(self):
        return bump(self.counter_path)


def stored(lab, task):
    """What the store holds for the task (plain cached load)."""
    return lab.run_tasks([task], disable_progress=True, disable_top=True)[task]


def main():
    kw = dict(disable_progress=True, disable_top=True)
    problems = []
    with tempfile.TemporaryDirectory() as tmp:
        lab = labtech.Lab(storage=os.path.join(tmp, 'store'), runner_backend='serial')
        p = lambda name: os.path.join(tmp, name)

        # --- Feature alone: run_task + bust_cache on a task without dependencies.
        leaf = Leaf(counter_path=p('leaf'))
        assert lab.run_task(leaf, **kw) == 1
        assert lab.run_task(leaf, **kw) == 1                      # cached
        assert lab.run_task(leaf, bust_cache=True, **kw) == 2     # re-executed
        assert stored(lab, leaf) == 2                             # and replaced

        # --- Feature alone: run_tasks (plural) + bust_cache + cached dependency.
        dep_a = Dep(counter_path=p('dep_a'))
        top_a = Top(dep=dep_a, counter_path=p('top_a'))
        assert lab.run_tasks([top_a], **kw) == {top_a: (1, 1)}
        assert lab.run_tasks([top_a], bust_cache=True, **kw) == {top_a: (2, 2)}
        assert stored(lab, dep_a) == 2 and stored(lab, top_a) == (2, 2)

        # --- Feature alone: run_task + cached dependency, no bust_cache.
        assert lab.run_task(top_a, **kw) == (2, 2)

        # --- Combination: run_task + bust_cache=True + cached dependency.
        dep_b = Dep(counter_path=p('dep_b'))
        top_b = Top(dep=dep_b, counter_path=p('top_b'))
        assert lab.run_task(top_b, **kw) == (1, 1)
        res = lab.run_task(top_b, bust_cache=True, **kw)
        if res != (2, 2):
            problems.append(f'run_task(bust_cache=True) returned {res!r}, expected (2, 2): '
                            'the cached dependency was loaded instead of re-executed')
        if stored(lab, dep_b) != 2:
            problems.append(f"dependency's stored entry is {stored(lab, dep_b)!r}, expected 2 "
                            '(bust_cache did not replace it)')
        if stored(lab, top_b) != (2, 2):
            problems.append(f"top task's stored entry is {stored(lab, top_b)!r}, expected (2, 2)")

    if problems:
        print('PROPERTY VIOLATED:')
        for prob in problems:
            print(' -', prob)
        return 1
    print('OK')
    return 0


if __name__ == '__main__':
    sys.exit(main())
