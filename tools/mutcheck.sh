#!/bin/bash
# usage: tools/mutcheck.sh <patch.diff> <ID> [<ID> ...]
# Applies a candidate mutation to a scratch worktree of /repo (never to /repo itself), runs the named
# checks against it (VERIF_REPO), prints exit codes and VIOLATION lines, removes the worktree.
patch="$1"; shift
wt=$(mktemp -d /tmp/mutapply.XXXXXX); rmdir "$wt"
git -C /repo worktree add --detach -q "$wt" HEAD || exit 2
if ! git -C "$wt" apply "$patch"; then echo "PATCH DOES NOT APPLY"; git -C /repo worktree remove --force "$wt"; exit 2; fi
cd "$(dirname "$0")/.."
for id in "$@"; do
  VERIF_REPLAY_DIR=/tmp/mutreplays VERIF_EVIDENCE_DIR=/tmp/mutevidence VERIF_REPO="$wt" ./check "$id" > /tmp/mutcheck_$id.log 2>&1; rc=$?
  echo "== $id rc=$rc"; grep -E "VIOLATION|KNOWN-FINDING|quick:|INFRA" /tmp/mutcheck_$id.log | head -5
done
git -C /repo worktree remove --force "$wt"
/venv/bin/python -c "
import sys; sys.path.insert(0, 'harness')
import gen_constants
gen_constants.write('/repo', 'lean/LabtechModel/Model/Generated.lean')"
