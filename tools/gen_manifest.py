#!/usr/bin/env python3
"""Writes /verif/MANIFEST.json from the table below (claimed properties) + properties.jsonl."""
import json, os
ROOT = os.path.dirname(os.path.dirname(os.path.abspath(__file__)))
props = [json.loads(l) for l in open(os.path.join(ROOT, 'properties.jsonl'))]
DAG_NOTE = ('Theorems are about the hand-written Lean run model (lean/LabtechModel/Model/Run.lean); the model is tied to /repo on every run by '
            'executing model (compiled driver) and real code (real TaskState/TaskCoordinator/ProcessExecutor/ProcessRunner/SerialRunner/caches/LocalStorage '
            'under a schedule-controlling fake-process layer, one- and two-call histories on the same task objects, several hash seeds) on the same generated cases '
            'and diffing the property\'s projection of the observations; plus a real-backend phase (really forked/spawned/serial workers, killed workers, task monitor on/off). '
            'Trusted: Lean kernel, axioms propext/Classical.choice/Quot.sound, the harness, CPython.')
TECH = 'Lean 4 proof about a hand-written executable model + checked correspondence (differential execution vs the real code) + implementation-side monitors'
C = {
 'C01': ('proof: returns_reference_values / returns_reference_values_from_C10 - for every acyclic problem whose tasks succeed, every backend, max_workers, max_parallel, sound cache pre-state, bust flag and every fair schedule, run_tasks returns exactly the requested tasks in request order with the value of the plain sequential dependency-first evaluation (refEval); every_yield_is_reference_value for every outcome at any point; reference_is_failure_aware_reference ties it to the failure-aware evaluator of C10. Correspondence + monitor on ~3000 generated one- and two-call cases (incl. None-valued results, calls after an aborted call on the same Lab) and ~50 real-backend runs per quick run.', DAG_NOTE),
 'C02': ('proof: start_after_deps - in every run every submit/start/exec of a task is preceded by a yield of each of its direct dependencies; ddeps_complete (every task object found in the parameters is a recorded dependency); dep_result_visible / dep_read_value - the snapshot a worker reads holds v for dependency d iff d was yielded ok v before (failed or died dependency: no entry, the read raises).', DAG_NOTE),
 'C03': ('proof: submitted_at_most_once, executed_at_most_once, yielded_at_most_once, nothing_outside_plan, plan_is_needed_closure / needed_is_planned (the plan is exactly the closure of the request through tasks not served from cache), cached_deps_untouched, use_cache_fixed_at_plan_time, loaded_iff_cached_beforehand, load_xor_exec, instances_marked for whole runs. An external writer caching a task between planning and submission is outside the models (CacheStable) and covered by monitor-only cases.', DAG_NOTE),
 'C04': ('proof: per-type max_parallel and global max_workers limits are invariants of every reachable state of whole runs (all problems, configurations, cache pre-states, schedules incl. batches and deaths), at loop heads and right after the submit phase; _start_processes tops up to exactly min(max_workers, running+queued); the serial runner has no worker and executes one submission per wait.', DAG_NOTE),
 'C05': ("proof: submit_phase_exhausts_ready (after the submit phase get_ready_tasks is empty in every reachable running state), resting_point_blocked (every pending task is dependency- or type-blocked at rest), no_idle_worker_at_rest, submit_phase_starts_all_ready, not_ready_means_blocked. The counting form 'executing = min(max_workers, runnable)' is not stated as one equation.", DAG_NOTE),
 'C10': ("proof: failure_isolated_status (with continue_on_failure no reachable state ever raises), failure_isolated_returns, no_start_after_raise, fail_fast_raises, raised_stops_loop, failed_task_has_no_result, failure_completes_task. 'Every task not depending on a failed one returns its reference value' is checked by the monitor (failure-aware reference evaluator), not yet a theorem.", DAG_NOTE),
 'C11': ('proof: no_keyerror, no_deadlock (pending work implies something in flight; for process runners a running worker), fair_iteration_progress, terminates / terminates_cases (under Acyclic, positive limits and a fair schedule of length >= |plan|+1 the run ends returned or LabError), spins_without_limits (max_workers=0 spins: the hypothesis is necessary). Wall-clock termination incl. SIGKILLed workers and the task monitor on/off is observed on real backends.', DAG_NOTE),
 'C16': ('proof (partial by nature): the decision logic labtech itself performs - backend selection table, start method per backend, context handed to run() = own filter of the Lab context on every backend (none when loaded), context non-interference of key and metadata, worker memory view per backend. What CPython start methods really do is observed on real serial/fork/spawn workers (pid, ppid, thread, start method, parent-mutated global, self.context; pairs of runs under different contexts compare keys and stored metadata).',
         'Model: lean/LabtechModel/Model/Env.lean (decision logic only). Runtime truth (which start method runs, what memory is shared) is checked, not proved. Trusted: Lean kernel, standard axioms, harness, CPython multiprocessing.'),
 'C17': ("proof: results_iff_needed - in every reachable running state a result is in the runner's map iff its task succeeded and still has an unfinished direct dependent (keys duplicate-free), results_value, needed_spec, empty_at_return, plus remove_results_exact, complete_reports_unneeded, captured_before_release.", DAG_NOTE),
 'C19': ('proof: Lean theorems over the proxy/worker/wait-round model (proxy_exactly_once, flush_idempotent, worker_exactly_once, conservation, no_duplicates, delivered_before_return, exactly_once, task_output_delivered) for every write/flush pattern, every number of workers and every release schedule; tied to the code by byte-exact correspondence on LoggerFileProxy, on the real ProcessRunner.wait/_subprocess_func/coordinator loop under the fake-process layer with phase-controlled release, and on real fork/spawn runs.',
         'killed workers and interrupt paths are outside the model; record-before-result ordering of Manager-queue puts is an assumption of the fake layer, checked only by the real runs. Trusted: Lean kernel, standard axioms, harness, CPython logging/multiprocessing.'),
 'C20': ('proof: build_fuel_sufficient, build_visits_all, build_types/_nodup/_order, build_entry, build_rels/_nodup, many_iff, single_iff, render_shape_*, render_defined for all task graphs of any size or depth; real build_task_diagram text equals the model text byte for byte on generated graphs; parse-back monitor against an independent traversal.',
         'type-hint formatting (format_type) is passed through as opaque tokens, not modelled. Trusted: Lean kernel, standard axioms, harness.'),
}
EXTRA = os.path.join(ROOT, 'tools', 'manifest_extra.json')
if os.path.exists(EXTRA):
    for k, v in json.load(open(EXTRA)).items():
        C[k] = tuple(v)
checks = []
for pid in sorted(C):
    text, note = C[pid][0], C[pid][1]
    tech = C[pid][2] if len(C[pid]) > 2 else TECH
    checks.append(dict(property_id=pid, quick_cmd=f'./check {pid} --tier quick', thorough_cmd=f'./check {pid} --tier thorough',
        evidence_file=f'evidence/{pid}.json', replay_cmd_template=f'./check {pid} --replay {{path}}', engine='lean-model+correspondence',
        level_claimed=dict(category='proof', text=text, design_ref='DESIGN.md section 7 ' + pid), level_note=note, technique=tech))
na = [dict(property_id=p['id'], reason='check not yet merged in this revision of /verif (under construction: see DESIGN.md section 7)') for p in props if p['id'] not in C]
m = dict(version=1, setup_cmd='./setup.sh',
  hooks=dict(guard='LABTECH_VERIF', enable='no hooks: the harness drives the unmodified package from /repo (sys.path) through public extension points and substitutes multiprocessing factories from outside', baseline_off_cmd='cd /repo && /venv/bin/python -m pytest -q -p no:cacheprovider --timeout=900', source_commits=[], add_only=True),
  engines=[dict(name='lean-model+correspondence', path='lean/ + harness/', serves_properties=sorted(C), kind_free_text='Lean 4 theorems over a hand-written executable model; correspondence harness runs model (native driver) and real code side by side; implementation-side monitors search for failing inputs')],
  checks=checks, not_applicable=na,
  notes='Exit codes: 0 held, 1 VIOLATION, 2 infrastructure failure. known_findings.json lists recorded and fixed defects. seeded/ holds independently written property-breaking changes and which check catches them.')
json.dump(m, open(os.path.join(ROOT, 'MANIFEST.json'), 'w'), indent=1)
print('claimed', sorted(C), 'not_applicable', [x['property_id'] for x in na])
