#!/usr/bin/env python3
"""Writes /verif/MANIFEST.json from the table below (claimed properties) + properties.jsonl."""
import json, os
ROOT = os.path.dirname(os.path.dirname(os.path.abspath(__file__)))
props = [json.loads(l) for l in open(os.path.join(ROOT, 'properties.jsonl'))]
DAG_NOTE = ('Theorems are about the hand-written Lean run model (lean/LabtechModel/Model/Run.lean); the model is tied to /repo on every run by '
            'executing model (compiled driver) and real code (real TaskState/TaskCoordinator/ProcessExecutor/ProcessRunner/SerialRunner/caches/LocalStorage '
            'under a schedule-controlling fake-process layer, one- and two-call histories on the same task objects, several hash seeds) on the same generated cases '
            'and diffing the property\'s projection of the observations; plus a real-backend phase (really forked/spawned/serial workers, killed workers, task monitor on/off). '
            'Trusted: Lean kernel, axioms propext/Classical.choice/Quot.sound, the harness, CPython.')
TECH = 'Lean 4 proof about a hand-written executable model + checked correspondence (differential execution vs the real code) + implementation-side monitors'
C = {
 'C01': ('proof (partial): returned dict = captured own outcomes in request order, each once; an outcome is behave(own reads) or the stored value under the own key; schedule/backend independence proved on a concrete diamond for all 3 backends x 3 worker counts x 2 schedules; the all-DAG statement run = refEval is still open (needs the dependency invariant). Correspondence + C01 monitor (plain sequential evaluation) on ~3000 generated cases per quick run.', DAG_NOTE),
 'C02': ('proof (partial): a submitted task has no pending dependency; complete_task only ever removes the completing task from pending-dependency sets and a pending dependency stays until it completes; dependency reads are by own identity, a missing entry is a raise; failed outcomes store nothing. The trace-level statement (every start preceded by the yields of all dependencies) is being derived from the master invariant.', DAG_NOTE),
 'C03': ('proof (partial): work list duplicate-free after planning; start removes, complete never re-inserts; one submit phase submits pairwise distinct pending tasks; cached tasks contribute no dependencies; already processed objects are skipped; one load xor one exec record per job; every recorded instance is marked on success.', DAG_NOTE),
 'C04': ('proof: per-type max_parallel and global max_workers limits are invariants of every reachable state of whole runs (all problems, configurations, cache pre-states, schedules incl. batches and deaths), at loop heads and right after the submit phase; _start_processes tops up to exactly min(max_workers, running+queued); the serial runner has no worker and executes one submission per wait.', DAG_NOTE),
 'C05': ('proof (partial): the submit phase starts every task get_ready_tasks lists; a pending task that is not listed is blocked by a pending dependency or by its type limit (counting active + already picked); after submit and after every wait no worker slot is idle while a future is queued; the serial wait executes the deque head. Idempotence of the submit phase (ready set empty afterwards) is being derived from the master invariant.', DAG_NOTE),
 'C10': ('proof (partial): with continue_on_failure handling a failed/died task never raises, stores and captures nothing and completes the task in the scheduler exactly as a success would; without it the first failure raises LabError for that very task, the rest of the batch is not processed and the loop body never runs again (no further start); run_tasks returns only captured requested tasks.', DAG_NOTE),
 'C11': ('proof (partial): the loop exits with zero further polling rounds once nothing is pending or in flight; every yielded outcome (success, raise or death) strictly shrinks the tracked futures; a wait in which all workers report empties the executor; every serial wait shortens the deque. The no-deadlock statement is being derived from the master invariant; wall-clock termination incl. killed workers is observed on real backends.', DAG_NOTE),
 'C16': ('proof (partial by nature): the decision logic labtech itself performs - backend selection table, start method per backend, context handed to run() = own filter of the Lab context on every backend (none when loaded), context non-interference of key and metadata, worker memory view per backend. What CPython start methods really do is observed on real serial/fork/spawn workers (pid, ppid, thread, start method, parent-mutated global, self.context; pairs of runs under different contexts compare keys and stored metadata).',
         'Model: lean/LabtechModel/Model/Env.lean (decision logic only). Runtime truth (which start method runs, what memory is shared) is checked, not proved. Trusted: Lean kernel, standard axioms, harness, CPython multiprocessing.'),
 'C17': ('proof (partial): remove_results drops exactly the named results and skips absent ones; complete_task reports only direct dependencies of the completing task or the task itself (the latter exactly when nothing waits for it); a requested value is captured before it can be released; a result not reported is kept. The whole-run invariant results = needed is being derived from the master invariant.', DAG_NOTE),
 'C19': ('proof: Lean theorems over the proxy/worker/wait-round model (proxy_exactly_once, flush_idempotent, worker_exactly_once, conservation, no_duplicates, delivered_before_return, exactly_once, task_output_delivered) for every write/flush pattern, every number of workers and every release schedule; tied to the code by byte-exact correspondence on LoggerFileProxy, on the real ProcessRunner.wait/_subprocess_func/coordinator loop under the fake-process layer with phase-controlled release, and on real fork/spawn runs.',
         'killed workers and interrupt paths are outside the model; record-before-result ordering of Manager-queue puts is an assumption of the fake layer, checked only by the real runs. Trusted: Lean kernel, standard axioms, harness, CPython logging/multiprocessing.'),
 'C20': ('proof: build_fuel_sufficient, build_visits_all, build_types/_nodup/_order, build_entry, build_rels/_nodup, many_iff, single_iff, render_shape_*, render_defined for all task graphs of any size or depth; real build_task_diagram text equals the model text byte for byte on generated graphs; parse-back monitor against an independent traversal.',
         'type-hint formatting (format_type) is passed through as opaque tokens, not modelled. Trusted: Lean kernel, standard axioms, harness.'),
}
EXTRA = os.path.join(ROOT, 'tools', 'manifest_extra.json')
if os.path.exists(EXTRA):
    for k, v in json.load(open(EXTRA)).items():
        C[k] = tuple(v)
checks = []
for pid in sorted(C):
    text, note = C[pid][0], C[pid][1]
    tech = C[pid][2] if len(C[pid]) > 2 else TECH
    checks.append(dict(property_id=pid, quick_cmd=f'./check {pid} --tier quick', thorough_cmd=f'./check {pid} --tier thorough',
        evidence_file=f'evidence/{pid}.json', replay_cmd_template=f'./check {pid} --replay {{path}}', engine='lean-model+correspondence',
        level_claimed=dict(category='proof', text=text, design_ref='DESIGN.md section 7 ' + pid), level_note=note, technique=tech))
na = [dict(property_id=p['id'], reason='check not yet merged in this revision of /verif (under construction: see DESIGN.md section 7)') for p in props if p['id'] not in C]
m = dict(version=1, setup_cmd='./setup.sh',
  hooks=dict(guard='LABTECH_VERIF', enable='no hooks: the harness drives the unmodified package from /repo (sys.path) through public extension points and substitutes multiprocessing factories from outside', baseline_off_cmd='cd /repo && /venv/bin/python -m pytest -q -p no:cacheprovider --timeout=900', source_commits=[], add_only=True),
  engines=[dict(name='lean-model+correspondence', path='lean/ + harness/', serves_properties=sorted(C), kind_free_text='Lean 4 theorems over a hand-written executable model; correspondence harness runs model (native driver) and real code side by side; implementation-side monitors search for failing inputs')],
  checks=checks, not_applicable=na,
  notes='Exit codes: 0 held, 1 VIOLATION, 2 infrastructure failure. known_findings.json lists recorded and fixed defects. seeded/ holds independently written property-breaking changes and which check catches them.')
json.dump(m, open(os.path.join(ROOT, 'MANIFEST.json'), 'w'), indent=1)
print('claimed', sorted(C), 'not_applicable', [x['property_id'] for x in na])
