#!/bin/bash
# usage: tools/confirm_mutation.sh <dir with patch.diff and demo.py|test_demo.py>
# Confirms, in a scratch worktree of /repo: demo passes without the change, the pinned suite passes
# with it, the demo fails with it. Prints a one-line JSON summary.
d="$1"
wt=$(mktemp -d /tmp/mutconfirm.XXXXXX); rmdir "$wt"
git -C /repo worktree add --detach -q "$wt" HEAD || exit 2
demo="$d/demo.py"; runner="/venv/bin/python"
if [ ! -f "$demo" ]; then demo="$d/test_demo.py"; runner="/venv/bin/python -m pytest -q -p no:cacheprovider -x"; fi
cd "$d"
PYTHONPATH="$wt" timeout 300 $runner "$demo" > /tmp/mc_clean.log 2>&1 < /dev/null; rc_clean=$?
applies=yes; git -C "$wt" apply "$d/patch.diff" 2>/tmp/mc_apply.log || applies=no
(cd "$wt" && PYTHONPATH="$wt" timeout 900 /venv/bin/python -m pytest -q -p no:cacheprovider --timeout=900 > /tmp/mc_pytest.log 2>&1 < /dev/null)
tests=$(tail -1 /tmp/mc_pytest.log)
PYTHONPATH="$wt" timeout 300 $runner "$demo" > /tmp/mc_mut.log 2>&1 < /dev/null; rc_mut=$?
git -C /repo worktree remove --force "$wt"
echo "{\"dir\": \"$d\", \"applies\": \"$applies\", \"demo_clean_rc\": $rc_clean, \"demo_mutated_rc\": $rc_mut, \"tests_with_mutation\": \"$tests\"}"
