#!/bin/bash
# usage: tools/mutbatch.sh <out_dir> <ID>   -> confirms each m*/ and runs the property's check against it
out="$1"; id="$2"
for m in "$out"/m*; do
  [ -f "$m/patch.diff" ] || continue
  echo "##### $id $(basename $m)"
  tools/confirm_mutation.sh "$m"
  tools/mutcheck.sh "$m/patch.diff" "$id"
done
