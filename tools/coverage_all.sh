#!/bin/bash
# Measures which lines of /repo/labtech the quick tier of all checks executes (one-off diagnostic; not a check).
cd "$(dirname "$0")/.."
d=$(mktemp -d /tmp/verifcov.XXXXXX)
cat > $d/.coveragerc <<EOC
[run]
source = /repo/labtech
parallel = True
data_file = $d/.coverage
concurrency = multiprocessing,thread
sigterm = True
EOC
export COVERAGE_PROCESS_START=$d/.coveragerc
export PYTHONPATH=/verif/harness
for p in C01 C06 C07 C08 C09 C12 C13 C14 C15 C16 C18 C19 C20; do
  /venv/bin/python -m coverage run --rcfile=$d/.coveragerc harness/check.py $p --tier quick > $d/$p.log 2>&1
  echo "$p rc=$?"
done
unset COVERAGE_PROCESS_START
(cd $d && /venv/bin/python -m coverage combine --rcfile=$d/.coveragerc > /dev/null 2>&1; /venv/bin/python -m coverage report --rcfile=$d/.coveragerc -m) > notes/coverage.txt 2>&1
tail -25 notes/coverage.txt
rm -rf $d
