#!/usr/bin/env python3
"""usage: save_seeded.py <prop> <srcdir> <name> <caught_by_json>
Copies a confirmed independent mutation into /verif/seeded/<prop>-<name>/ with meta.json."""
import json, os, shutil, subprocess, sys
prop, src, name, caught = sys.argv[1], sys.argv[2], sys.argv[3], json.loads(sys.argv[4])
dst = f'/verif/seeded/{prop}-{name}'
os.makedirs(dst, exist_ok=True)
shutil.copy(os.path.join(src, 'patch.diff'), dst)
demo = 'demo.py' if os.path.exists(os.path.join(src, 'demo.py')) else 'test_demo.py'
shutil.copy(os.path.join(src, demo), dst)
notes = open(os.path.join(src, 'notes.md')).read() if os.path.exists(os.path.join(src, 'notes.md')) else ''
conf = json.loads(subprocess.check_output(['/verif/tools/confirm_mutation.sh', src]).decode().strip().splitlines()[-1])
meta = dict(property=prop, source='independent sub-agent given only the property text and a scratch worktree',
            needs=notes[:1500], confirmed=dict(demo_exit_without_change=conf['demo_clean_rc'], demo_exit_with_change=conf['demo_mutated_rc'],
            pinned_suite_with_change=conf['tests_with_mutation'], how='tools/confirm_mutation.sh in a scratch worktree of /repo HEAD'),
            checks_run=caught, base_commit=subprocess.check_output(['git', '-C', '/repo', 'rev-parse', '--short', 'HEAD']).decode().strip())
json.dump(meta, open(os.path.join(dst, 'meta.json'), 'w'), indent=1)
print(dst, conf)
