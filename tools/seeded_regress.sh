#!/bin/bash
# usage: tools/seeded_regress.sh <outfile> <ID> [<ID> ...]
# Re-runs every saved seeded change of the named properties against the current checks (each in a
# scratch worktree, never in /repo); one line per change: "<dir> rc=<exit code of the property's check>".
# Every line must say rc=1. Run from a COPY of /verif when several are run in parallel
# (each copy has its own lean/.lake and Generated.lean).
out="$1"; shift
here="$(cd "$(dirname "$0")/.." && pwd)"
: > "$out"
for id in "$@"; do
  for d in "$here"/seeded/$id-*/; do
    chk=$(python3 -c "import json,sys; print(json.load(open(sys.argv[1])).get('regress_check') or sys.argv[2])" "$d/meta.json" "$id")   # (one change is owned by another property's check)
    rc=$("$here"/tools/mutcheck.sh "$d/patch.diff" "$chk" 2>&1 | grep -o "rc=[0-9]*" | head -1)
    echo "$(basename $d) $rc" >> "$out"
  done
done
