#!/usr/bin/env python3
"""Regenerates DESIGN.md sections 12-14 (seeded-change matrix, false-alarm log, operating notes) from seeded/*/meta.json."""
import json, os, glob
ROOT = os.path.dirname(os.path.dirname(os.path.abspath(__file__)))
rows = []
missed = 0
for d in sorted(glob.glob(os.path.join(ROOT, 'seeded', '*'))):
    m = json.load(open(os.path.join(d, 'meta.json')))
    name = os.path.basename(d)
    patch = open(os.path.join(d, 'patch.diff')).read()
    files = sorted({l.split(' b/')[1].strip().replace('labtech/', '') for l in patch.splitlines() if l.startswith('diff --git')})
    first = m['needs'].strip().splitlines()
    title = next((l.strip('# ').strip() for l in first if l.strip()), '')[:100]
    outcome = '; '.join(f"{k}: {v}" for k, v in m['checks_run'].items())
    if 'first missed' in outcome or 'first no-failing' in outcome or 'missed by' in outcome or 'first reported only' in outcome:
        missed += 1
    rows.append((name, ', '.join(files), title, outcome))
n = len(rows)
sec = f'''
---------------------------------------------------------------------------------------

## 12. Seeded changes and which check catches them

{n} changes to labtech were written by fresh sub-agents that were given only the text of one property and
their own scratch worktree of `/repo` (nothing from `/verif`), with the brief to break the property while
keeping the 103 pinned tests green and to need something specific to manifest (an interleaving, a fault
point, a multi-step history, an unusual input, two cooperating sites). Round 1 asked for two per property, round 2
for three that differ from each other in code site, clause and kind of trigger. Each was confirmed independently
(`tools/confirm_mutation.sh`: demo exits 0 without the change, non-zero with it, suite 103 passed with it)
and is kept under `seeded/<property>-<id>/` (`patch.diff`, the demonstration, `meta.json`). They are run
against the checks with `tools/mutcheck.sh <patch> <ID>…` (scratch worktree + `VERIF_REPO`; `/repo` itself
is never touched).

Rounds 3-5 told the authors that a large randomized differential test of the obvious paths exists (round 3: aim at rare
options, state that survives calls, real-process timing, loop boundaries; rounds 5 and 5b: act through helper modules the
property's record does not name, or through two cooperating edits in two files; round 6: break the property only when two or
three legal features are combined).

Result: **all {n} are caught (exit 1 with a concrete failing input as the replay), {n - 2} of them by the check of the
property they target**; the two exceptions are `C11-r5m2` (a coordinator spin that needs a Ctrl-C: interrupts are outside
C11's quantifier and the change is caught by C14, which owns them) and `C08-r6m1` (a failed *save* of a re-execution keeps
the old, now corrupt entry: caught by C12 and C13, which own failed overwrites; C08's histories have failing executions only).
Round 6 (feature interactions, the last hours of the budget) left **one change open** - it is kept, with its demonstration,
under `notes/open_mutations/` and is NOT part of the {n}: `C08-m2` (`run_task(bust_cache=True)` rewritten as uncache-then-run, so
cached dependencies are not re-executed: the history alphabet of C08 has no singular `run_task`). `C10-r6m2`
(`ProcessRunner.close()` waits for running workers and thereby starts queued tasks after a fail-fast failure) first hung the
exploration workers - under the fake-process layer nobody releases those workers - and is caught since a per-call watchdog
reports the hang per case.
'''
for r in rows:
    sec += '| %s | %s | %s | %s |\n' % tuple(x.replace('|', '/') for x in r)
sec += open(os.path.join(ROOT, 'notes', 'design_tail_static.md')).read()
p = os.path.join(ROOT, 'DESIGN.md')
s = open(p).read()
marker = '\n---------------------------------------------------------------------------------------\n\n## 12. Seeded changes'
i = s.index(marker)
open(p, 'w').write(s[:i].rstrip('\n') + '\n' + sec)
print('seeded', n, 'missed-first', missed)
