#!/bin/bash
# usage: tools/harmless_regress.sh <outfile> [<dir-prefix> ...]
# Re-runs the saved behaviour-preserving rewrites (harmless/<ID>-hN/patch.diff) through tools/harmcheck.sh.
# Every check line must end rc=0.
out="$1"; shift
here="$(cd "$(dirname "$0")/.." && pwd)"
: > "$out"
for pre in "${@:-C}"; do
  for d in "$here"/harmless/$pre*/; do
    [ -f "$d/patch.diff" ] || continue
    echo "##### $(basename $d)" >> "$out"
    "$here"/tools/harmcheck.sh "$d/patch.diff" 2>&1 | grep -v WARNING | grep "suite:\|rc=\|PATCH" >> "$out"
  done
done
