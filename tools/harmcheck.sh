#!/bin/bash
# usage: tools/harmcheck.sh <patch.diff>   (a behaviour-preserving rewrite of labtech)
# Applies the patch in a scratch worktree, confirms the pinned suite still passes, and runs the checks
# whose property is anchored in the files it touches. Every check must exit 0; prints "<check> rc=<n>".
patch="$1"
here="$(cd "$(dirname "$0")/.." && pwd)"
files=$(grep '^+++ b/' "$patch" | sed 's|+++ b/||')
ids=""
for f in $files; do
  case "$f" in
    labtech/lab.py) ids="$ids C01 C02 C03 C04 C05 C10 C11 C14 C17 C19" ;;
    labtech/runners/process.py) ids="$ids C04 C05 C10 C11 C14 C16 C17 C19" ;;
    labtech/runners/serial.py) ids="$ids C01 C04 C14 C16" ;;
    labtech/runners/base.py) ids="$ids C01 C06 C16 C19" ;;
    labtech/cache.py) ids="$ids C06 C07 C08 C09 C12 C13" ;;
    labtech/storage.py) ids="$ids C08 C12 C13 C18" ;;
    labtech/tasks.py) ids="$ids C02 C03 C07 C09 C15 C20" ;;
    labtech/serialization.py) ids="$ids C06 C07 C09 C15" ;;
    labtech/diagram.py) ids="$ids C20" ;;
    labtech/utils.py) ids="$ids C01 C19" ;;
    labtech/types.py) ids="$ids C01 C07 C15" ;;
    *) ids="$ids C01" ;;
  esac
done
ids=$(echo $ids | tr ' ' '\n' | sort -u | tr '\n' ' ')
wt=$(mktemp -d /tmp/harmapply.XXXXXX); rmdir "$wt"
git -C /repo worktree add --detach -q "$wt" HEAD || exit 2
if ! git -C "$wt" apply "$patch"; then echo "PATCH DOES NOT APPLY"; git -C /repo worktree remove --force "$wt"; exit 2; fi
(cd "$wt" && PYTHONPATH="$wt" timeout 900 /venv/bin/python -m pytest -q -p no:cacheprovider --timeout=900 > "$wt.pytest.log" 2>&1 < /dev/null)
echo "suite: $(tail -1 "$wt.pytest.log")"; rm -f "$wt.pytest.log"
cd "$here"
tag=$(echo "$patch" | md5sum | cut -c1-8)
for id in $ids; do
  VERIF_REPLAY_DIR=/tmp/harmreplays VERIF_EVIDENCE_DIR=/tmp/harmevidence VERIF_REPO="$wt" ./check "$id" > /tmp/harmcheck_${tag}_$id.log 2>&1; rc=$?
  echo "$id rc=$rc $(grep -E 'VIOLATION|INFRA' /tmp/harmcheck_${tag}_$id.log | head -2 | tr '\n' ' ')"
done
git -C /repo worktree remove --force "$wt"
/venv/bin/python -c "
import sys; sys.path.insert(0, 'harness')
import gen_constants
gen_constants.write('/repo', 'lean/LabtechModel/Model/Generated.lean')"
