#!/bin/bash
# Builds the framework offline from files on disk: regenerates the extracted constants from /repo,
# builds the Lean library (models, proofs, property theorems) and the native driver.
set -e
cd "$(dirname "$0")"
/venv/bin/python -c "
import sys; sys.path.insert(0, 'harness')
import gen_constants
gen_constants.write('/repo', 'lean/LabtechModel/Model/Generated.lean')
"
cd lean
lake build
